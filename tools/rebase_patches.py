#!/usr/bin/env python3
"""After a change to /repo: re-base every mutant / seeded patch that no longer
applies cleanly (3-way merge in a scratch worktree).  Patches that conflict
are reported and left alone."""
import glob, os, subprocess, sys
REPO = "/repo"
def sh(*a, cwd=None):
    return subprocess.run(a, cwd=cwd, capture_output=True, text=True)
bad = []
for f in sorted(glob.glob("/verif/mutants/*/*.diff") + glob.glob("/verif/seeded/*/patch.diff")):
    if sh("git", "apply", "--check", f, cwd=REPO).returncode == 0:
        continue
    wt = "/tmp/wt-rebase-%d" % os.getpid()
    sh("git", "worktree", "add", "-q", "--detach", wt, "HEAD", cwd=REPO)
    try:
        r = sh("git", "apply", "-3", f, cwd=wt)
        sh("git", "reset", "-q", cwd=wt)
        conflict = "<<<<<<<" in sh("git", "diff", "HEAD", "--", "src", cwd=wt).stdout
        if r.returncode != 0 or conflict:
            bad.append(f); print("CONFLICT", f); continue
        d = sh("git", "diff", "HEAD", "--", "src", cwd=wt).stdout
        t = sh("/venv/bin/python", "-m", "pytest", "-q", "-p", "no:cacheprovider", "src/chameleon",
               cwd=wt).stdout.strip().splitlines()[-1:]  # (informational)
        open(f, "w").write(d)
        print("rebased", f, t)
    finally:
        sh("git", "worktree", "remove", "--force", wt, cwd=REPO)
sys.exit(1 if bad else 0)
