#!/bin/sh
# runs the thorough tier of every claimed check once (about 15 min each)
for p in ${1:-C04 C12 C13 C14 C15 C16}; do
  out=$(VERIF_SEED=${2:-7} /venv/bin/python -m sim.run check $p --tier thorough 2>&1); rc=$?
  echo "thorough $p rc=$rc $(echo "$out" | tail -1)"
  if [ $rc -ne 0 ]; then echo "$out" | tail -30; fi
done
