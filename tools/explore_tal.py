"""Exploration helper: model vs engine over generated templates and fault plans."""
import sys
from sim.chamsim import import_chameleon
import_chameleon()
from chameleon.zpt.template import PageTemplate
from sim.core import Choices
from sim.gen import Gen, serialise, gen_fault_plans
from sim.checks.talcommon import run_real, run_model
from collections import Counter

n = int(sys.argv[1]) if len(sys.argv) > 1 else 200
show = int(sys.argv[2]) if len(sys.argv) > 2 else 6
kinds = Counter()
shown = 0
for seed in range(n):
    ch = Choices(seed)
    g = Gen(ch, {"on_error": 0.45})
    tmpl = g.template()
    src, occ = serialise(tmpl['tree'])
    t = PageTemplate(src)
    base = run_real(t, tmpl, [], None)
    plans = gen_fault_plans(ch, tmpl, base['history'], 30)
    for plan in plans:
        hc = {} if ch.coin(0.5) else None
        r = run_real(t, tmpl, plan, hc)
        m = run_model(tmpl, plan, hc)
        diffs = []
        if r['out'] != m['out']:
            diffs.append('out')
        if r['history'] != m['history']:
            diffs.append('history')
        rc = r['raise'][0] if r['raise'] else None
        mc = m['raise'][0] if m['raise'] else None
        if rc != mc:
            diffs.append('raise')
        if r['handler'] != m['handler']:
            diffs.append('handler')
        if diffs:
            key = '+'.join(diffs)
            kinds[key] += 1
            if shown < show:
                shown += 1
                print('====', seed, key, 'plan', plan, 'handler', hc)
                print(src)
                print('real ', r['out'], r['raise'] and (r['raise'][0], str(r['raise'][1])[:150]), r['history'], r['handler'])
                print('model', m['out'], m['raise'] and (m['raise'][0], str(m['raise'][1])[:150]), m['history'], m['handler'])
print(kinds)
