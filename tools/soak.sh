#!/bin/sh
# usage: tools/soak.sh "C14 C15 C16" "2 3 4 5" [tier] [budget]
# Runs the checks against /repo with several base seeds; prints one summary
# line per run and the full tail of any run that does not exit 0.
props="$1"; seeds="$2"; tier="${3:-quick}"; budget="$4"
for s in $seeds; do for p in $props; do
  out=$(VERIF_SEED=$s /venv/bin/python -m sim.run check $p --tier $tier ${budget:+--budget $budget} 2>&1); rc=$?
  echo "seed=$s $p rc=$rc $(echo "$out" | tail -1)"
  if [ $rc -ne 0 ]; then echo "$out" | tail -25; fi
done; done
