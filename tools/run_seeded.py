#!/usr/bin/env python3
"""Run the property's check against every adopted seeded change (or the ones
named) and record caught / missed in seeded/<id>/meta.json."""
import json, os, sys, glob
sys.path.insert(0, os.path.dirname(os.path.abspath(__file__)))
import mutants
budget = float(os.environ.get("BUDGET", "45"))
names = sys.argv[1:]
for meta_p in sorted(glob.glob("/verif/seeded/*/meta.json")):
    sid = os.path.basename(os.path.dirname(meta_p))
    if names and sid not in names:
        continue
    meta = json.load(open(meta_p))
    # (a change may break its property only through a mechanism that
    # another property's simulation owns, e.g. C12 via a compile race)
    prop = meta.get("check_with", meta["property"])
    r = mutants.run_one(prop, os.path.join(os.path.dirname(meta_p), "patch.diff"), budget)
    meta["detected_by"] = {"check": prop, "tier": "quick", "budget_s": budget,
                           "status": r["status"], "signatures": r.get("sigs")}
    json.dump(meta, open(meta_p, "w"), indent=1)
    print(sid, r["status"], r.get("sigs"), r.get("wall"), flush=True)
    if r["status"] != "caught":
        print("   ", (r.get("tail") or "")[-500:])
