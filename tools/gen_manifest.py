#!/usr/bin/env python3
"""Writes /verif/MANIFEST.json from the table below (kept as code so the
reasons and level notes live next to each other)."""
import json
import os

ROOT = os.path.dirname(os.path.dirname(os.path.abspath(__file__)))
PY = "/venv/bin/python"

CLAIMED = {
    "C04": dict(
        category="exploration",
        text=("Fault injection at the expression seam: every pipe alternative, guard, define, attribute, repeat source, "
              "case value and interpolation of a generated template is a simulator-owned probe that returns or raises a "
              "chosen class (8 the pipe must catch, 9 it must not, 4 outside Exception). A reference interpreter "
              "predicts the exact probe-call history (exactly-once, order, never-if-unreached in one comparison) and "
              "the result or propagated (class, args). Only the fault-dependent clauses of C04 are claimed: which "
              "classes fall through a pipe / exists:, and evaluation count and order while failures, guards, switch/"
              "case and on-error recovery steer control flow. Prefix dispatch, name resolution order and attribute->"
              "item fallback are NOT decided by this technique (pure functions of the input). Sampled: evidence, not proof."),
        design_ref="DESIGN.md 3.1",
        note=("Trusted: sim/model.py (reference interpreter written from docs/reference.rst and the property statement) "
              "for the generated subset; expressions are probe calls, optionally wrapped in a fixed set of python forms "
              "(lambdas with star / keyword-only / positional-only parameters, list / set / dict comprehensions and a "
              "generator expression over same-named render arguments, dotted access and dotted calls on dict and "
              "item-only objects); f-strings and arbitrary python are not generated. Two known findings are recognised "
              "by exact model variants (F28 in known_findings.json; C13's F12 is not reported here)."),
        technique="deterministic fault injection at the expression-evaluation seam with a reference interpreter as history oracle",
    ),
    "C12": dict(
        category="fault_enumeration",
        text=("Per generated template or multi-file template set (85% laid out over several lines with non-ASCII text before "
              "expressions): every probe site reached in the fault-free run x each of 32 exception classes (builtin, "
              "custom with extra constructor arguments, custom __str__, RecursionError, four outside Exception) is made "
              "to fail in its own render - enumerated, not sampled - plus two-fault plans with an earlier recovered "
              "failure. Oracle on the raised exception: class preserved (+RenderError iff Exception subclass; "
              "RecursionError untouched; non-Exceptions never become Exceptions), args / exit code preserved, the first "
              "(expression, file, line, column) record of the message is an expression unit enclosing the failing call "
              "at its true position, followed by exactly the enclosing use-macro sites (text, file, line, column) innermost "
              "first, no stale records, nothing returned. Also: a text that begins with U+FEFF, and a failure under up to "
              "70 calls of a macro that uses itself (every call site must be listed)."),
        design_ref="DESIGN.md 3.2",
        note=("Trusted: the generator's site table (offsets recorded while serialising) and sim/model.py for the stack of "
              "enclosing use-macro sites. 35% of cases are multi-file sets (macro libraries reached through load:). "
              "One known finding is recorded rather than repaired (entity-drift, known_findings.json): positions after "
              "character entities in TAL attribute values. 25% of the laid-out templates carry form feed / NEL / U+2028-style "
              "separators, 20% CRLF line endings. Exceptions are held and read again after later renders, and once more with "
              "open() failing while the message is built. Errors crossing a nested render() call made by user code (a helper that renders "
              "the case's template, silently or reading str(e) before re-raising), asynchronous KeyboardInterrupt / SystemExit at the "
              "distinct lines of a render (must come out unchanged, never return), exception objects raised again by later renders, "
              "render arguments that cannot be formatted and a 32-class zoo (incl. __slots__, keyword-only constructors, a refusing "
              "__setattr__) are part of every batch."),
        technique="deterministic fault enumeration at the expression-evaluation seam (every reached site x exception zoo) with a generator-known site table as oracle",
    ),
    "C13": dict(
        category="fault_enumeration",
        text=("Generated templates with tal:on-error on about half of the elements (nested up to depth 3 below the "
              "root, with omit-tag, repeat, define, condition, switch/case, content/replace, attributes in between); "
              "per template 47+ fault plans in two stages (sites reached fault-free, then sites only reached because of "
              "those faults: fallback expressions, later alternatives) make sets of 1-4 evaluation points raise, with "
              "on_error_handler absent / recording / failing. The reference interpreter predicts output text, handler "
              "calls and the propagated exception. Sampled plans per template: evidence, not proof."),
        design_ref="DESIGN.md 3.3",
        note=("Trusted: sim/model.py for the generated subset (macros, slots and i18n blocks between nested handlers are "
              "generated; a define-slot inside a translation block is not). error.type/value are compared always, "
              "error.lineno/offset against the failing expression's position (or a use-macro expression it was reached through "
              "when the failure crossed a macro / slot boundary). Asynchronous KeyboardInterrupt / SystemExit at the distinct lines "
              "of a render must come out unchanged (on-error must not handle them)."),
        technique="deterministic fault injection (sets of failing evaluation points) with a reference interpreter as output oracle",
    ),
    "C14": dict(
        category="exploration",
        text=("(a) 2-3 real threads under a seeded baton scheduler share string templates, lazily compiled file "
              "templates, a template loader and module-loader-backed templates; every source line of chameleon's "
              "shared-state modules and of the generated render functions, every lock operation, file-system call "
              "and in-template probe is a pre-emption point. Three families: general (PCT over global steps or over "
              "a task's n-th shared-state access line / file-system call / probe, or random), 'first lazily compiling "
              "use' of one shared file template or loader name by three threads, and a compile race (yields at every "
              "function entry of the compile-side modules). An extra observer thread performs an atomic render at "
              "every access line once the object has been used. Every call must equal its run-alone result on a "
              "fresh, separately compiled object graph, caller arguments (incl. search_path lists) must be "
              "unchanged, no deadlock, no residue afterwards. (b) call "
              "sequences on reused vs fresh instances, and the same sequence in fresh interpreters under other "
              "PYTHONHASHSEED values (with allocator noise) and in reverse order must give identical output. "
              "(c) reload race: an auto-reloading template that has been rendered, its file replaced (and in half of the "
              "runs replaced again during the concurrent phase), judged with a real-time-order oracle over scheduler "
              "steps. (d) in a quarter of the schedules one thread is sent an asynchronous exception (KeyboardInterrupt, "
              "SystemExit, MemoryError) at its n-th line / n-th distinct line / n-th shared-state access line inside one "
              "operation: that operation may fail with it, every other operation, the observer and the sequential "
              "re-execution must be unaffected and nobody may deadlock. "
              "Schedules are sampled: evidence, not proof."),
        design_ref="DESIGN.md 3.4",
        note=("Pre-emption granularity is a source line. Locks that chameleon creates are the scheduler's; the import "
              "system's per-module locks are not (seeded change C14-n is out of reach). Asynchronous exceptions are "
              "delivered only where CPython could deliver them (never at try: / with lines). "
              "Trusted: the run-alone execution of the same operation (after the same prior history) as the expected value."),
        technique="deterministic simulation: baton-scheduled real threads with sys.monitoring line pre-emption and PCT; cross-process replay under different hash seeds",
    ),
    "C15": dict(
        category="fault_enumeration",
        text=("Seeded deterministic simulation of 1-3 processes sharing one cache directory: "
              "crash or errno fault at a seeded file-system step of storing/loading a module "
              "(every step kind is reached and counted), two writers interleaved under PCT, "
              "restarts, and pairs of configurations differing in exactly one compilation input "
              "(options, near-equal bodies, file names and extensions, directories, process builtins, add-on versions, "
              "and option values that only their identity describes - the simulator owns id() and the per-process token). "
              "Oracle: every outcome equals the no-cache reference; every final-named entry is a "
              "complete hand-over. Single-writer crash placement is near-complete per template; "
              "two-writer interleavings are sampled - evidence, not proof."),
        design_ref="DESIGN.md 3.5",
        note=("Process-crash durability model (kill -9), not power loss. Process boundary is a stub "
              "(threads with per-process module table and lock). py_compile is performed step by step (open, write, replace), module import is one step. "
              "Trusted: the no-cache (MemoryLoader) path as reference."),
        technique="deterministic simulation: simulated processes + crash/errno fault injection at file-system seam, PCT schedules, observer processes on snapshots",
    ),
    "C16": dict(
        category="exploration",
        text=("Seeded histories (4-26 operations) of a deployer (writes versions, stamps mtimes from a simulated "
              "clock incl. backward/same-tick/sub-second steps, deletes, restores) and a server (render, list macros, "
              "use a macro from another template, content type, loader.load with several name shapes, load: "
              "expression) over 1-3 files in 1-3 search directories (given absolute or relative to the process's directory, "
              "a package-relative entry first or last; objects made from absolute, relative or ~ paths), with EIO/ENOENT injected at the server's "
              "stat/read seam. After every step the outcome must be one an independent instance of the expected "
              "version produces; compile counts must match the mtime rule; loader results are checked for identity "
              "and first-match resolution; after faults stop one tick and one use must give the latest version. "
              "Further fault kinds: another process replaces the file just before the n-th file-system call of a use "
              "(exact set of (recorded mtime, version) states afterwards); an asynchronous exception (KeyboardInterrupt, "
              "SystemExit, MemoryError) at the n-th line / distinct line / shared-state access line of a use, usually one "
              "that has something to reload; the garbage collector run as a seeded operation after the caller dropped "
              "every template it got from the loader (same name must still give the same instance). "
              "Sampling of histories: evidence, not proof."),
        design_ref="DESIGN.md 3.6",
        note=("Strictly sequential (one server thread); reload decisions are modelled by the mtime rule, "
              "same-mtime rewrites accept either version. Trusted: a fresh PageTemplateFile on a private copy as "
              "the source of expected text. Package-relative specs are exercised read-only through the repository's own "
              "chameleon.tests package; zip/egg resources are not simulated. After an injected fault the object is "
              "tainted: only the set of versions it can legitimately hold is accepted until a fresh mtime resynchronises it."),
        technique="deterministic simulation: operation histories under a simulated clock and faulty disk, checked step by step against a reference model of file system + reload rule + search-path walk",
    ),
}

PENDING = {
}

NOT_APPLICABLE = {
    "C01": "pure function of template x bindings: no schedule, clock, crash point or fault in the statement; input generation alone would be property-based testing, not simulation",
    "C02": "escaping is a pure function of value x insertion site; nothing for a simulator to schedule or fail",
    "C03": "verbatim reproduction / lossless tokenising is a pure function of the input string",
    "C05": "variable scoping is a pure function of template x bindings (the Scope operation-sequence part is a sequential data structure with nothing to inject)",
    "C06": "${...} delimiting is a pure function of the text",
    "C07": "attribute rendering is a pure function of element x values x configuration",
    "C08": "repeat variables are pure arithmetic over position and length",
    "C09": "METAL = inlining is a pure function of (library, caller) pairs",
    "C10": "i18n arguments are a pure function of template x translate stub; its 'exactly once' has no fault or schedule attached",
    "C11": "compile-time error locations: the 'faults' are edits of the input text, and compilation is a pure function of that text",
    "C17": "byte-input decoding is a pure function of the bytes",
    "C18": "namespace / prefix spelling independence is a pure function of the template",
    "C19": "strict vs non-strict is a pure function of template x bindings (reachability is control flow, not a fault)",
    "C20": "text mode is a pure function of the input string",
}


def main():
    checks = []
    for pid, c in sorted(CLAIMED.items()):
        checks.append({
            "property_id": pid,
            "quick_cmd": f"{PY} -m sim.run check {pid} --tier quick",
            "thorough_cmd": f"{PY} -m sim.run check {pid} --tier thorough",
            "evidence_file": f"evidence/{pid}.json",
            "replay_cmd_template": f"{PY} -m sim.run replay {{path}}",
            "engine": "sim",
            "level_claimed": {"category": c["category"], "text": c["text"],
                              "design_ref": c["design_ref"]},
            "level_note": c["note"],
            "technique": c["technique"],
        })
    na = [{"property_id": k, "reason": v}
          for k, v in sorted({**NOT_APPLICABLE, **PENDING}.items())]
    doc = {
        "version": 1,
        "setup_cmd": f"{PY} -m compileall -q sim",
        "hooks": {
            "guard": "MALTHE_CHAMELEON_VERIF",
            "enable": ("no hooks were added to /repo: every seam is reached from outside "
                       "(stdlib attributes patched before chameleon is imported, threading.RLock "
                       "factory during import, sys.monitoring LINE events, constructor arguments); "
                       "the checks set MALTHE_CHAMELEON_VERIF=1 for form only"),
            "baseline_off_cmd": "cd /repo && /venv/bin/python -m pytest -ra -q -p no:cacheprovider --timeout=900 --continue-on-collection-errors",
            "source_commits": [],
            "add_only": True,
        },
        "engines": [{
            "name": "sim", "path": "sim/",
            "serves_properties": sorted(CLAIMED),
            "kind_free_text": ("deterministic simulator written for this task: seeded choice stream, baton "
                               "scheduler over real threads with PCT, file-system/clock/lock seams, simulated "
                               "processes with crash, fault plans, reference models, case minimiser, replay files"),
        }],
        "checks": checks,
        "not_applicable": na,
        "notes": ("All checks: cwd=/verif, honour VERIF_SEED / VERIF_TIER, re-exec with PYTHONHASHSEED=0, import "
                  "chameleon from /repo/src as it is, rewrite evidence/<id>.json. Exit 0 held (KNOWN-FINDING lines "
                  "allowed), 1 VIOLATION, 2 harness trouble. known_findings.json lists fixed/known defects."),
    }
    with open(os.path.join(ROOT, "MANIFEST.json"), "w") as f:
        json.dump(doc, f, indent=1)
        f.write("\n")


if __name__ == "__main__":
    main()
