#!/usr/bin/env python3
"""Detection power: fraction of runs of a check that flag a given change.

  python3 tools/power.py C14 mutants/C14/rcontext_on_instance.diff [runs]
"""
import os, re, subprocess, sys
prop, patch = sys.argv[1], os.path.abspath(sys.argv[2])
runs = int(sys.argv[3]) if len(sys.argv) > 3 else 800
wt = f"/tmp/wt-power-{os.getpid()}"
subprocess.check_call(["git", "-C", "/repo", "worktree", "add", "-q", "--detach", wt, "HEAD"])
try:
    subprocess.check_call(["git", "-C", wt, "apply", "--whitespace=nowarn", patch])
    env = dict(os.environ, VERIF_REPO=wt)
    p = subprocess.run(["/venv/bin/python", "-m", "sim.run", "check", prop, "--tier", "quick",
                        "--runs", str(runs), "--budget", "3000", "--no-fresh"],
                       cwd="/verif", env=env, capture_output=True, text=True)
    last = p.stdout.strip().splitlines()[-1]
    m = re.search(r"runs=(\d+).*violating_runs=(\d+)", last)
    sigs = sorted({l.split(" - ")[0][11:] for l in p.stdout.splitlines() if l.startswith("violation: ")})
    if m:
        r, v = int(m.group(1)), int(m.group(2))
        print(f"{prop} {os.path.basename(patch)}: {v}/{r} runs flag it ({100.0*v/max(r,1):.2f}%) sigs={sigs}")
    else:
        print(last)
finally:
    subprocess.run(["git", "-C", "/repo", "worktree", "remove", "--force", wt], capture_output=True)
    subprocess.run(["rm", "-rf", wt])
