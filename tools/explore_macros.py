from sim.chamsim import import_chameleon
import_chameleon()
from chameleon.zpt.template import PageTemplate
from sim.core import Choices
from sim.gen import Gen, serialise, gen_fault_plans
from sim.checks.talcommon import run_real, run_model
from collections import Counter
import sys
kinds=Counter(); shown=0; nm=0
for seed in range(int(sys.argv[1])):
    ch=Choices(seed)
    g=Gen(ch,{"macros":0.2,"on_error":0.4,"i18n":0.25,"code":0.3,"mutlit":0.3,"twins":0.3}); tmpl=g.template()
    src,occ=serialise(tmpl['tree'])
    if 'i18n:translate' in src: nm+=1
    try: t=PageTemplate(src)
    except Exception as e:
        print(seed,'COMPILE',type(e).__name__,str(e)[:200]); print(src); kinds['compile']+=1; continue
    base=run_real(t,tmpl,[],None)
    plans=[[]]+gen_fault_plans(ch,tmpl,base['history'],25)
    for plan in plans:
        hc={} if ch.coin(0.5) else None
        r=run_real(t,tmpl,plan,hc); m=run_model(tmpl,plan,hc)
        d=[]
        if r['out']!=m['out']: d.append('out')
        if r['history']!=m['history']: d.append('history')
        rc=r['raise'][0] if r['raise'] else None; mc=m['raise'][0] if m['raise'] else None
        if rc!=mc: d.append('raise')
        if r['handler']!=m['handler']: d.append('handler')
        if d:
            alt=run_model(tmpl,plan,hc,guard_tags=False)
            if alt['out']==r['out'] and alt['history']==r['history']:
                kinds['known:F12']+=1
                continue
            kinds['+'.join(d)]+=1
            if shown<int(sys.argv[2]):
                shown+=1
                print('====',seed,d,plan,hc); print(src)
                print('real ',r['out'],r['raise'] and (r['raise'][0],str(r['raise'][1])[:200]),r['history'],r['handler'])
                print('model',m['out'],m['raise'] and (m['raise'][0],str(m['raise'][1])[:100]),m['history'],m['handler'])
print(kinds,'with use-macro:',nm)
