#!/usr/bin/env python3
"""Validate MANIFEST.json and evidence/*.json against the given schemas
(run with python3-vt, which has jsonschema)."""
import glob
import json
import sys

import jsonschema

ok = True
m = json.load(open("/verif/MANIFEST.json"))
jsonschema.validate(m, json.load(open("/root/.vp/MANIFEST.schema.json")))
print("MANIFEST ok; claimed:", [c["property_id"] for c in m["checks"]])
props = [json.loads(l)["id"] for l in open("/verif/properties.jsonl")]
claimed = {c["property_id"] for c in m["checks"]}
na = {c["property_id"] for c in m.get("not_applicable", [])}
missing = [p for p in props if p not in claimed | na]
if missing or claimed & na:
    print("UNACCOUNTED:", missing, "BOTH:", claimed & na)
    ok = False
es = json.load(open("/root/.vp/EVIDENCE.schema.json"))
for p in sorted(glob.glob("/verif/evidence/*.json")):
    try:
        jsonschema.validate(json.load(open(p)), es)
        print("evidence ok:", p)
    except jsonschema.ValidationError as e:
        ok = False
        print("EVIDENCE INVALID:", p, e.message)
sys.exit(0 if ok else 1)
