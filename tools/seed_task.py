#!/usr/bin/env python3
"""Writes the task file for an independent sub-agent that is to produce a
breaking change for one property (it sees the property text only).

  python3 tools/seed_task.py C14 l      -> /tmp/seed-C14-l/_seed/TASK.md
  (the scratch worktree /tmp/seed-C14-l must exist:
   git -C /repo worktree add --detach /tmp/seed-C14-l HEAD)

AVOID lists the mechanisms earlier batches used, so that a new batch looks
elsewhere; it says nothing about what the checks can detect.
"""
import json
import os
import sys

AVOID = {
    'C04': "a lambda skipping scope push; omit-tag guard evaluated twice with default; switch/case body ordering; dict item-before-attribute fast path; hoisting literal displays to statics; type prefix on later pipe alternatives; narrowing LookupError to KeyError/IndexError; skipping attribute->item rewrite for call targets; memoising interpolation values by expression text; expression-cache dict rebinding after macros; comprehension loop variables made local including the outermost iterable; pipe splitter taught to skip quoted strings; lookup_attr item fallback wrapped in a broad except; digest() mutating the compiler's class-level set of builtin names in place; a fast path for exists: over a bare identifier; exists: using the pipe's exception tuple; naming cached-guard variables after expression text; a per-(class,name) memo of item-vs-attribute in lookup_attr; type-level lookup of __getitem__ in lookup_attr",
    'C12': "missing __token reset before in-place macro call; args lost for OSError/MemoryError; column = absolute offset; stale handled-error records; removed token for use-macro expression; expression compilers cached by text; compiler class state shared across concurrent compilations; derived exception class cached per class with __str__ reassigned; tal:repeat not copying sized containers; except-OSError-as clobbering a variable in the formatter; line table built with str.splitlines; an 'already formatted' marker attribute that lands on the original exception through the shared instance dictionary; the formatter caching its text; de-duplicating recorded sites of a nested render per record; filling the offset->(line, column) table with one forward scan; keying cached modules by the file's base name; tokenizer dropping a leading BOM; bounding the list of recorded error sites; rewriting split_parts with a placeholder for ;;",
    'C13': "handler called after the fallback; del __stream not redirected in translation blocks; switch/case cancel ordering; fallback tags with omit-tag expression; except RecursionError: raise; saved lengths on a per-function stack; fallback guarded by truthiness of saved length; shared len(__stream) AST node; fallback start tag with raw ${} attributes; dropping try for bodies without token references; error-variable backup taken inside the handler; try/finally restoration of repeat variables opened before the loop variable is bound; binding error / calling the handler only when the fallback mentions 'error'; reporting to on_error_handler only the first failure of an element per render; taking error's position from the first recorded site without matching the exception; saving the stream length through an alias bound at function entry; dropping the token reset before a filled slot is called; dropping the on-error wrap of fill-slot content; restoring i18n settings only when the guarded element declares one",
    'C14': "re-cook deleting all _render* first; search_path list shared and mutated; unlocked fast path in ModuleLoader._load; RepeatDict mutable default; code generator class state at module level; xmlns declarations written to the process-wide default namespace map; reload decision kept in a local; read() resetting content_type before I/O; mtime recorded after read+compile; frozenset ordering of i18n:attributes; Macros wrappers memoised; cook() memoising the digest it is compiling before the functions are installed; registry key dropping positional arguments; import: resolver reading sys.modules instead of __import__; a per-type cache in lookup_attr; hoisting literal displays into module-level statics; memoising render()'s encoding helpers on the instance; caching the formatted exception class per type; passing the resolved package through a loader attribute",
    'C15': "rename before close; unset vs empty option sharing a key; single os.write with ignored short count; fixed temp name; unlocked _load fast path; sweeping *.tmp files; temp file on another file system + shutil.move; memoised option digest; line-ending normalisation in the key; digest taken before extra_builtins merged; sys.modules entry before exec_module; byte-code written in place by the loader itself instead of py_compile; a canonical form for functools.partial that sorts positional arguments; truncating the stored module's file name; hashing only the distributions whose modules are imported; hashing the live builtins instead of the compiler's snapshot; keying local functions by code hash + closure cells; using the pid as per-process token; hashing only options present in the instance dict",
    'C16': "reload not clearing _cooked; shared search_path list; reload only if mtime greater; registry key losing format; content type kept from the previous version; template's own directory not moved to the front of the search path; mtime recorded after compile; Macros memoising wrappers; auto_reload not reaching the load: loader; default extension decided by splitext; weak-value registry; cook() skipping recompilation when the digest is unchanged (memo recorded before the compile succeeded); a per-instance reload lock with the mtime comparison outside it; sweeping stale macro entry points only when _cooked is set; an lru_cache around the search-path existence test; include() skipping cook_check once compiled; computing the template's own directory from the raw constructor argument; losing the package_name reset in the search-path walk; keeping _cooked set across a changed mtime",
}

pid, batch = sys.argv[1], sys.argv[2]
props = {json.loads(l)['id']: json.loads(l) for l in open('/verif/properties.jsonl')}
p = props[pid]
wt = f"/tmp/seed-{pid}-{batch}"
os.makedirs(wt + "/_seed", exist_ok=True)
txt = f"""# Task

You are working in `{wt}`, a scratch git worktree of the Python library *chameleon* (malthe/chameleon, a compiler for Zope Page Templates). Work ONLY inside this directory (never touch /repo or /verif; do not read /verif). Python is `/venv/bin/python`; run the library from this worktree with `PYTHONPATH={wt}/src`. The existing test suite is run with
`cd {wt} && PYTHONPATH={wt}/src /venv/bin/python -m pytest -q -p no:cacheprovider src/chameleon` (233 tests, all pass now). There is no network.

Below is a semantic property that users of the library rely on. Your job is to play the role of a developer who, through a plausible-looking refactoring, optimisation or "clean-up", introduces a change to the library source (under `src/chameleon/`) that **breaks this property** while the code still imports and **all 233 existing tests still pass**.

Requirements for the change:
* It must look like something that could realistically be merged (a performance shortcut, a refactor, a "simplification", a well-meant bug fix) - not sabotage, not a special case on a magic input.
* It must need something *specific* to manifest: a particular thread interleaving, a crash or I/O fault at a particular point, a multi-step sequence of operations, an unusual-but-legal input, or two cooperating sites that each look fine alone. Ordinary use (render a simple template once) must still work. The subtler, the better.
* It must be different in mechanism from these ideas, which have already been used: {AVOID[pid]}.
* Keep the patch small (typically 5-40 changed lines). Do not edit tests.

Deliverables, all under `{wt}/_seed/`:
1. `patch.diff` - output of `git -C {wt} diff -- src` (the change itself must be applied in the worktree's working tree, uncommitted).
2. `demo.py` - a standalone program (uses only the standard library + chameleon imported from PYTHONPATH) that exits 0 on the unchanged library and exits non-zero (printing what went wrong) with your change. It must be deterministic (if it needs a thread interleaving, force it with events/monkeypatching rather than hoping). Verify both: run it with `PYTHONPATH={wt}/src` (changed) and with `PYTHONPATH=/repo/src` (unchanged; read-only use of /repo/src is allowed for this purpose only).
3. `meta.json` - an object with keys `"summary"` (what you changed and the mechanism by which it breaks the property), `"needs"` (what exactly is needed for the breakage to manifest, and why ordinary use and the test suite do not show it), `"ran"` (list of the commands you ran and their results, including the full test suite result with the change).

Before you finish, confirm: the 233 tests pass with the change; demo.py fails with the change and passes without it; patch.diff applies to a clean checkout. In your final answer give a five-line summary. If, while reading the code, you notice something in the *unchanged* library that already violates the property, mention it briefly at the end (one paragraph each, with a minimal reproducing input) - that is valuable too.

# The property ({pid}: {p['title']})

Statement: {p['statement']}

Quantified over: {p['quantifier']['text']}

Why unit tests cannot settle it: {p['why_tests_cant']}

Code anchors: {json.dumps(p['anchors']['mechanism'])}
State involved: {json.dumps(p['anchors']['state'])}
"""
open(f"{wt}/_seed/TASK.md", "w").write(txt)
print(wt + "/_seed/TASK.md")
