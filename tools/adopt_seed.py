#!/usr/bin/env python3
"""Verify a sub-agent's seeded change and file it under /verif/seeded/<id>/.

  python3 tools/adopt_seed.py /tmp/seed-C15-a C15-a

Checks, in a fresh scratch worktree of /repo HEAD (removed afterwards):
  * patch applies, * existing tests pass with it, * demo exits non-zero with
  it and zero without it.
"""
import json
import os
import shutil
import subprocess
import sys

src, sid = sys.argv[1], sys.argv[2]
seed = os.path.join(src, "_seed")
prop = sid.split("-")[0]
wt = f"/tmp/wt-adopt-{os.getpid()}"
subprocess.run(["git", "-C", "/repo", "worktree", "remove", "--force", wt], capture_output=True)
subprocess.check_call(["git", "-C", "/repo", "worktree", "add", "-q", "--detach", wt, "HEAD"])
notes = []
ok = True
try:
    def demo(path):
        p = subprocess.run(["/venv/bin/python", os.path.join(seed, "demo.py")],
                           env={**os.environ, "PYTHONPATH": path}, cwd="/tmp",
                           capture_output=True, text=True, timeout=600)
        return p.returncode, (p.stdout + p.stderr)[-400:]
    rc0, out0 = demo(wt + "/src")
    notes.append(f"demo on unpatched HEAD worktree: exit {rc0}")
    ap = subprocess.run(["git", "-C", wt, "apply", "--3way", "--whitespace=nowarn",
                         os.path.join(seed, "patch.diff")], capture_output=True, text=True)
    if ap.returncode:
        ap = subprocess.run(["git", "-C", wt, "apply", "--whitespace=nowarn",
                             os.path.join(seed, "patch.diff")], capture_output=True, text=True)
    notes.append(f"git apply: exit {ap.returncode} {ap.stderr.strip()[:200]}")
    if ap.returncode:
        ok = False
    else:
        # re-derive the patch against current HEAD
        diff = subprocess.check_output(["git", "-C", wt, "diff", "HEAD", "--", "src"], text=True)
        t = subprocess.run(["/venv/bin/python", "-m", "pytest", "-q", "-x", "-p", "no:cacheprovider", "src/chameleon"],
                           cwd=wt, env={**os.environ, "PYTHONPATH": wt + "/src"}, capture_output=True, text=True)
        notes.append("existing tests with the change: " + t.stdout.strip().splitlines()[-1])
        rc1, out1 = demo(wt + "/src")
        notes.append(f"demo with the change: exit {rc1}: {out1.strip()[-200:]}")
        if t.returncode or rc1 == 0 or rc0 != 0:
            ok = False
    print("\n".join(notes))
    if ok:
        dst = os.path.join("/verif/seeded", sid)
        os.makedirs(dst, exist_ok=True)
        open(os.path.join(dst, "patch.diff"), "w").write(diff)
        shutil.copy(os.path.join(seed, "demo.py"), os.path.join(dst, "demo.py"))
        meta = {}
        mp = os.path.join(seed, "meta.json")
        if os.path.exists(mp):
            try:
                meta = json.load(open(mp))
            except Exception:
                meta = {"raw": open(mp).read()[:2000]}
        meta["property"] = prop
        meta["verified_by_me"] = notes
        meta.setdefault("detected_by", "pending")
        json.dump(meta, open(os.path.join(dst, "meta.json"), "w"), indent=1)
        print("ADOPTED", dst)
    else:
        print("REJECTED", sid)
finally:
    subprocess.run(["git", "-C", "/repo", "worktree", "remove", "--force", wt], capture_output=True)
    subprocess.run(["rm", "-rf", wt])
sys.exit(0 if ok else 1)
