#!/usr/bin/env python3
"""Run one run index of a check (no minimisation) and print what it found.

  /venv/bin/python tools/onerun.py C16 1 2528 [--tier quick] [--dump case.json] [--min]
"""
import json
import os
import sys

if os.environ.get("PYTHONHASHSEED") != "0":
    os.environ["PYTHONHASHSEED"] = "0"
    os.execv(sys.executable, [sys.executable] + sys.argv)
sys.path.insert(0, os.path.dirname(os.path.dirname(os.path.abspath(__file__))))
from sim import run as R            # noqa: E402
from sim.core import Choices        # noqa: E402

prop, base, idx = sys.argv[1], int(sys.argv[2]), int(sys.argv[3])
tier = sys.argv[sys.argv.index("--tier") + 1] if "--tier" in sys.argv else "quick"
chk = R.load_check(prop)
chk.warmup()
seed = R.run_seed(base, prop, idx)
case = chk.gen(Choices(seed), tier)
res = chk.run(case)
if "--min" in sys.argv and res.get("violations"):
    case = chk.minimise(case, res["violations"][0])
    res = chk.run(case)
if "--dump" in sys.argv:
    json.dump(case, open(sys.argv[sys.argv.index("--dump") + 1], "w"), indent=1)
print("harness:", res.get("harness"))
for v in res.get("violations", ()):
    print("VIOL", v["sig"], v["detail"][:1500])
print("digest", res.get("digest"))
