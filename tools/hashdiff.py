"""Debug helper: run one seed under two PYTHONHASHSEEDs, show first differing log line."""
import importlib, json, os, subprocess, sys
if len(sys.argv) > 3 and sys.argv[3] == "child":
    from sim.core import Choices, EventLog, run_seed
    orig_init = EventLog.__init__
    def init(self, keep=4000): orig_init(self, 1000000)
    EventLog.__init__ = init
    prop, idx = sys.argv[1], int(sys.argv[2])
    CHECK = importlib.import_module('sim.checks.' + prop.lower()).CHECK
    CHECK.warmup()
    logs = []
    od = EventLog.digest
    def dg(self):
        logs.append(list(self.tail)); return od(self)
    EventLog.digest = dg
    case = CHECK.gen(Choices(run_seed(20260924, prop, idx)), 'quick')
    CHECK.run(case)
    print("LOG" + json.dumps(logs[-1]))
    sys.exit(0)
outs = []
for hs in ("0", "7"):
    env = dict(os.environ, PYTHONHASHSEED=hs, PYTHONPATH="/verif")
    p = subprocess.run([sys.executable, __file__, sys.argv[1], sys.argv[2], "child"], env=env, capture_output=True, text=True, cwd="/verif")
    line = [l for l in p.stdout.splitlines() if l.startswith("LOG")]
    if not line:
        print(p.stdout[-2000:], p.stderr[-2000:]); sys.exit(1)
    outs.append(json.loads(line[0][3:]))
a, b = outs
print(len(a), len(b))
for j, (x, y) in enumerate(zip(a, b)):
    if x != y:
        print('\n'.join(a[max(0, j - 4):j + 3])); print('----'); print('\n'.join(b[max(0, j - 4):j + 3])); break
