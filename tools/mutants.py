#!/usr/bin/env python3
"""Sensitivity table: apply each patch under mutants/<prop>/ (and
seeded/<id>/patch.diff) to a scratch worktree of /repo, run the property's
check against it with a small budget and report caught / missed.

  python3 tools/mutants.py [C15 ...] [--budget 40] [--seeded] [--only name]

Scratch worktrees live under /tmp and are removed straight afterwards.
Not a registered command: the registered checks always test /repo itself.
"""
import argparse
import glob
import json
import os
import subprocess
import sys
import time

ROOT = os.path.dirname(os.path.dirname(os.path.abspath(__file__)))


def run_one(prop, patch, budget, tier="quick", runs=None, test=False):
    wt = f"/tmp/wt-mut-{os.getpid()}"
    subprocess.run(["git", "-C", "/repo", "worktree", "remove", "--force", wt],
                   capture_output=True)
    subprocess.check_call(["git", "-C", "/repo", "worktree", "add", "-q",
                           "--detach", wt, "HEAD"])
    try:
        if patch:
            p = subprocess.run(["git", "-C", wt, "apply", "--whitespace=nowarn", patch],
                               capture_output=True, text=True)
            if p.returncode:
                return {"status": "patch-failed", "out": p.stderr[-500:]}
        tests_ok = None
        if test:
            t = subprocess.run(
                ["/venv/bin/python", "-m", "pytest", "-q", "-x", "-p",
                 "no:cacheprovider", "src/chameleon"], cwd=wt,
                capture_output=True, text=True,
                env={**os.environ, "PYTHONPATH": wt + "/src"})
            tests_ok = t.returncode == 0
        env = dict(os.environ)
        env["VERIF_REPO"] = wt
        env.pop("PYTHONHASHSEED", None)
        cmd = ["/venv/bin/python", "-m", "sim.run", "check", prop, "--tier",
               tier, "--budget", str(budget), "--no-fresh"]
        if runs:
            cmd += ["--runs", str(runs)]
        t0 = time.time()
        p = subprocess.run(cmd, cwd=ROOT, env=env, capture_output=True,
                           text=True, timeout=budget * 6 + 600)
        sigs = sorted({l.split(" - ")[0].replace("violation: ", "")
                       for l in p.stdout.splitlines()
                       if l.startswith("violation: ")})
        has_v = any(l.startswith("VIOLATION property=")
                    for l in p.stdout.splitlines())
        status = {0: "MISSED", 1: "caught"}.get(p.returncode,
                                                "harness-%d" % p.returncode)
        if p.returncode == 1 and not has_v:
            status = "crashed"
        return {"status": status,
                "sigs": sigs, "wall": round(time.time() - t0, 1),
                "tests_pass": tests_ok,
                "tail": (p.stdout[-600:] + p.stderr[-600:]) if status != "caught" else ""}
    finally:
        subprocess.run(["git", "-C", "/repo", "worktree", "remove", "--force",
                        wt], capture_output=True)
        subprocess.run(["rm", "-rf", wt])


def main():
    ap = argparse.ArgumentParser()
    ap.add_argument("props", nargs="*")
    ap.add_argument("--budget", type=float, default=40)
    ap.add_argument("--seeded", action="store_true")
    ap.add_argument("--only")
    ap.add_argument("--test", action="store_true",
                    help="also run the repo's test suite on the mutant")
    ap.add_argument("--clean", action="store_true",
                    help="also run against an unpatched worktree")
    a = ap.parse_args()
    rows = []
    props = a.props or sorted(os.listdir(os.path.join(ROOT, "mutants")))
    for prop in props:
        if a.clean:
            r = run_one(prop, None, a.budget)
            rows.append((prop, "<unpatched>", r))
            print(prop, "<unpatched>", r["status"], r.get("sigs"), flush=True)
        patches = sorted(glob.glob(os.path.join(ROOT, "mutants", prop, "*.diff")))
        if a.seeded:
            for meta in sorted(glob.glob(os.path.join(ROOT, "seeded", "*", "meta.json"))):
                m = json.load(open(meta))
                if m.get("property") == prop:
                    patches.append(os.path.join(os.path.dirname(meta), "patch.diff"))
        for patch in patches:
            name = os.path.basename(patch)[:-5]
            if name == "patch":
                name = "seeded/" + os.path.basename(os.path.dirname(patch))
            if a.only and a.only not in name:
                continue
            r = run_one(prop, patch, a.budget, test=a.test)
            rows.append((prop, name, r))
            print(prop, name, r["status"], r.get("sigs"), r.get("wall"),
                  "tests_pass=%s" % r.get("tests_pass") if a.test else "",
                  flush=True)
            if r["status"] not in ("caught",):
                print("   ", (r.get("tail") or r.get("out") or "")[-400:])
    missed = [r for r in rows if r[2]["status"] != "caught" and r[1] != "<unpatched>"]
    print(f"\n{len(rows) - len(missed)}/{len(rows)} as expected; missed: "
          f"{[(p, n) for p, n, _ in missed]}")
    return 1 if missed else 0


if __name__ == "__main__":
    sys.exit(main())
