"""Debug helper: run the determinism self-test sequence and show the first
differing event-log line.  usage: divergence.py C14 [n]"""
import importlib
import sys

from sim.core import Choices, EventLog, run_seed

prop = sys.argv[1]
n = int(sys.argv[2]) if len(sys.argv) > 2 else 6
orig_init = EventLog.__init__


def init(self, keep=4000):
    orig_init(self, 1000000)


EventLog.__init__ = init
mod = importlib.import_module('sim.checks.' + prop.lower())
CHECK = mod.CHECK
CHECK.warmup()
logs = []
orig_digest = EventLog.digest


def dg(self):
    logs.append(list(self.tail))
    return orig_digest(self)


EventLog.digest = dg
idxs = list(range(1000000, 1000000 + n))
res = {}
for rnd in (0, 1):
    for i in idxs:
        case = CHECK.gen(Choices(run_seed(int(__import__("os").environ.get("VERIF_SEED", "20260924")), prop, i)), 'quick')
        CHECK.run(case)
        res[(rnd, i)] = logs[-1]
for i in idxs:
    a, b = res[(0, i)], res[(1, i)]
    if a != b:
        print("DIVERGED", i, len(a), len(b))
        for j, (x, y) in enumerate(zip(a, b)):
            if x != y:
                print('\n'.join(a[max(0, j - 6):j + 4]))
                print('----')
                print('\n'.join(b[max(0, j - 6):j + 4]))
                break
        break
else:
    print("no divergence")
