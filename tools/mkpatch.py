#!/usr/bin/env python3
"""mkpatch.py <out.diff> <file> <<< python code using variable s (file text) -> s"""
import subprocess, sys, os
out, rel = sys.argv[1], sys.argv[2]
code = sys.stdin.read()
wt = "/tmp/wt-mkpatch"
subprocess.run(["git","-C","/repo","worktree","remove","--force",wt],capture_output=True)
subprocess.check_call(["git","-C","/repo","worktree","add","-q","--detach",wt,"HEAD"])
try:
    p = os.path.join(wt, rel)
    s = open(p).read()
    g = {"s": s}
    exec(code, g)
    assert g["s"] != s, "no change"
    open(p, "w").write(g["s"])
    d = subprocess.check_output(["git","-C",wt,"diff","HEAD","--","src"],text=True)
    t = subprocess.run(["/venv/bin/python","-m","pytest","-q","-x","-p","no:cacheprovider","src/chameleon"],cwd=wt,capture_output=True,text=True,env={**os.environ,"PYTHONPATH":wt+"/src"})
    print(t.stdout.strip().splitlines()[-1])
    open(out,"w").write(d)
    print("wrote", out, len(d.splitlines()), "lines")
finally:
    subprocess.run(["git","-C","/repo","worktree","remove","--force",wt],capture_output=True)
