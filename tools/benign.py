#!/usr/bin/env python3
"""Apply each behaviour-preserving change under /verif/benign/ to a scratch
worktree and require that the named check still exits 0.

  python3 tools/benign.py [--budget 60]

File name: <check>_<what>.diff (C14_reload_lock_correct.diff -> C14)."""
import glob
import os
import sys

sys.path.insert(0, os.path.dirname(os.path.abspath(__file__)))
import mutants  # noqa: E402

budget = float(sys.argv[sys.argv.index("--budget") + 1]) if "--budget" in sys.argv else 60
bad = 0
for p in sorted(glob.glob("/verif/benign/*.diff")):
    prop = os.path.basename(p).split("_")[0]
    r = mutants.run_one(prop, p, budget)
    ok = r["status"] == "MISSED"        # exit 0, no VIOLATION
    print(prop, os.path.basename(p), "ok" if ok else "ALARM " + r["status"], r.get("sigs"), flush=True)
    if not ok:
        bad += 1
        print((r.get("tail") or "")[-800:])
sys.exit(1 if bad else 0)
