"""Import the code under test with the simulator's seams in place.

* ``threading.RLock`` / ``threading.Lock`` are dispatching factories: a lock
  created *by chameleon's own code* - at import time (the process-wide lock
  of ``chameleon.loader``) or later (a per-instance lock that a change to the
  library may introduce) - is a lock whose blocking the scheduler owns and of
  which every simulated process has its own instance; everybody else gets
  the real thing.  No name inside chameleon is touched.
* the file-system wrappers of ``sim.fs`` are installed first, so both
  ``import os`` and ``from os.path import x`` users see them.
"""
from __future__ import annotations

import sys
import threading

from . import fs
from .core import REPO_SRC

_real_RLock = threading.RLock
_real_Lock = threading.Lock
_imported = False
_PKG = REPO_SRC.rstrip("/") + "/chameleon/"


def _created_by_chameleon() -> bool:
    f = sys._getframe(2)
    return f.f_code.co_filename.startswith(_PKG)


def _rlock_factory(*a, **k):
    if _created_by_chameleon():
        return DispatchLock()
    return _real_RLock(*a, **k)


def _lock_factory(*a, **k):
    if _created_by_chameleon():
        return DispatchLock()
    return _real_Lock(*a, **k)


class DispatchLock:
    """Stands in for one ``threading.RLock()`` created by the code under
    test.  Inside a simulated process it is that process's own SimRLock;
    outside the simulation it is a real RLock."""

    def __init__(self) -> None:
        self._real = _real_RLock()

    def _target(self):
        w = fs._active
        if w is not None:
            p = w.current_proc()
            if p is not None:
                return p.lock_for(id(self))
        return self._real

    def acquire(self, blocking: bool = True, timeout: float = -1):
        r = self._acquire(blocking, timeout)
        # An explicit acquire() is a call of a C function in real life:
        # when it returns, CPython checks for pending signals - before the
        # caller's next statement (a ``try:``, say) has begun.  The
        # with-statement has no such window, so __enter__ does not pass
        # through here.
        from . import trace
        trace.after_call_returned("acquire")
        return r

    def _acquire(self, blocking: bool = True, timeout: float = -1):
        t = self._target()
        if t is self._real:
            return t.acquire(blocking, timeout)
        return t.acquire()

    def release(self) -> None:
        self._target().release()

    def locked(self) -> bool:
        t = self._target()
        if t is self._real:
            if t.acquire(False):
                t.release()
                return False
            return True
        return t.owner is not None

    def __enter__(self):
        self._acquire()
        return self

    def __exit__(self, *a) -> None:
        self.release()


def import_chameleon():
    """Returns the chameleon package (imported from the working tree)."""
    global _imported
    if REPO_SRC not in sys.path[:1]:
        sys.path.insert(0, REPO_SRC)
    fs.install()
    if not _imported:
        assert "chameleon" not in sys.modules, \
            "chameleon was imported before the seams were installed"
        # (for good: a lock that chameleon creates later - per template
        # instance, say - must be the scheduler's too, or a thread parked
        # by the scheduler while holding it would block the others for
        # real)
        threading.RLock = _rlock_factory        # type: ignore[assignment]
        threading.Lock = _lock_factory          # type: ignore[assignment]
        import chameleon                    # noqa: F401
        import chameleon.zpt.loader         # noqa: F401
        import chameleon.zpt.template       # noqa: F401
        _imported = True
    import chameleon
    assert chameleon.__file__.startswith(REPO_SRC), chameleon.__file__
    return chameleon


def describe_exc(e: BaseException) -> list:
    """A comparable, process-independent description of an exception."""
    return [type(e).__name__, _safe_args(e)]


def _safe_args(e: BaseException):
    out = []
    for a in getattr(e, "args", ()):
        if isinstance(a, (int, float, bool, type(None))):
            out.append(a)
        else:
            try:
                s = str(a)
            except Exception:
                s = "<unprintable>"
            out.append(s[:200])
    return out
