"""Import the code under test with the simulator's seams in place.

* ``threading.RLock`` is a dispatching factory *while chameleon is being
  imported*, so the process-wide lock of ``chameleon.loader`` becomes a lock
  whose blocking the scheduler owns and of which every simulated process has
  its own instance.  No name inside chameleon is touched.
* the file-system wrappers of ``sim.fs`` are installed first, so both
  ``import os`` and ``from os.path import x`` users see them.
"""
from __future__ import annotations

import sys
import threading

from . import fs
from .core import REPO_SRC

_real_RLock = threading.RLock
_imported = False


class DispatchLock:
    """Stands in for one ``threading.RLock()`` created by the code under
    test.  Inside a simulated process it is that process's own SimRLock;
    outside the simulation it is a real RLock."""

    def __init__(self) -> None:
        self._real = _real_RLock()

    def _target(self):
        w = fs._active
        if w is not None:
            p = w.current_proc()
            if p is not None:
                return p.lock_for(id(self))
        return self._real

    def acquire(self, blocking: bool = True, timeout: float = -1):
        t = self._target()
        if t is self._real:
            return t.acquire(blocking, timeout)
        return t.acquire()

    def release(self) -> None:
        self._target().release()

    def __enter__(self):
        self.acquire()
        return self

    def __exit__(self, *a) -> None:
        self.release()


def import_chameleon():
    """Returns the chameleon package (imported from the working tree)."""
    global _imported
    if REPO_SRC not in sys.path[:1]:
        sys.path.insert(0, REPO_SRC)
    fs.install()
    if not _imported:
        assert "chameleon" not in sys.modules, \
            "chameleon was imported before the seams were installed"
        threading.RLock = DispatchLock          # type: ignore[assignment]
        try:
            import chameleon                    # noqa: F401
            import chameleon.zpt.loader         # noqa: F401
            import chameleon.zpt.template       # noqa: F401
        finally:
            threading.RLock = _real_RLock
        _imported = True
    import chameleon
    assert chameleon.__file__.startswith(REPO_SRC), chameleon.__file__
    return chameleon


def describe_exc(e: BaseException) -> list:
    """A comparable, process-independent description of an exception."""
    return [type(e).__name__, _safe_args(e)]


def _safe_args(e: BaseException):
    out = []
    for a in getattr(e, "args", ()):
        if isinstance(a, (int, float, bool, type(None))):
            out.append(a)
        else:
            try:
                s = str(a)
            except Exception:
                s = "<unprintable>"
            out.append(s[:200])
    return out
