"""File-system seam.

Attributes of the real ``os`` / ``os.path`` / ``tempfile`` / ``py_compile`` /
``builtins`` modules are wrapped once per interpreter (before chameleon is
imported, so ``from os import x`` sees the wrappers too).  A wrapper acts only
when (a) a ``World`` is active, (b) the path lies under that world's sandbox
root and (c) the calling thread currently *is* a simulated process; otherwise
it is a straight pass-through.  Every intercepted call is one simulation
event: it is counted, logged, is a pre-emption point, and may be the point at
which the fault plan crashes the process or makes the call fail.  After that
the real operation is carried out on a scratch directory.
"""
from __future__ import annotations

import builtins
import errno
import io
import os
import py_compile
import re
import shutil
import sys
import tempfile
import threading

from .core import EventLog, Scheduler, SimCrash, SimRLock

SCRATCH_BASE = "/dev/shm" if os.path.isdir("/dev/shm") and os.access(
    "/dev/shm", os.W_OK) else tempfile.gettempdir()


class real:
    """The unpatched functions (harness-side work uses these)."""
    rename = os.rename
    replace = os.replace
    remove = os.remove
    unlink = os.unlink
    fdopen = os.fdopen
    exists = os.path.exists
    getmtime = os.path.getmtime
    mkstemp = tempfile.mkstemp
    pycompile = py_compile.compile
    open = builtins.open
    os_open = os.open
    os_write = os.write
    os_close = os.close
    os_fsync = os.fsync
    listdir = os.listdir
    utime = os.utime
    stat = os.stat


_active: "World | None" = None
_installed = False
open_fault: list = [None]       # callable(path, mode) -> errno | None
_NO = object()
_HEX32 = re.compile(r"[0-9a-f]{32}")

FAULT_KINDS = ("crash", "enospc", "eio", "eacces", "emfile", "enoent", "intr")

# which errno-style fault makes sense at which kind of call
APPLICABLE = {
    "enospc": {"write", "close-flush", "mkstemp", "pyc", "pyc-write"},
    "eio": {"open-read", "load-read", "write", "close-flush", "pyc",
            "pyc-write"},
    "eacces": {"rename", "remove", "open-read", "open-write", "mkstemp",
               "pyc-open", "pyc-replace"},
    "emfile": {"mkstemp", "open-read", "open-write", "fdopen"},
    "enoent": {"getmtime", "open-read", "exists"},
}
ERRNO = {"enospc": errno.ENOSPC, "eio": errno.EIO, "eacces": errno.EACCES,
         "emfile": errno.EMFILE, "enoent": errno.ENOENT}


class _ReadFile:
    """A file opened for reading whose read() and close() are events too
    (worlds with ``read_events``): something can happen in the world
    between the moment a process has read a file and its next step."""

    def __init__(self, world, fo, path) -> None:
        self._w, self._fo, self._path = world, fo, path

    def read(self, *a):
        self._w.fs_event("read", self._path)
        return self._fo.read(*a)

    def close(self):
        if not self._fo.closed:
            self._w.fs_event("close-read", self._path)
        return self._fo.close()

    def __enter__(self):
        return self

    def __exit__(self, *exc):
        self.close()

    def __iter__(self):
        return iter(self._fo)

    def __getattr__(self, name):
        return getattr(self._fo, name)


class SimProc:
    """A simulated OS process: its own module table, its own lock, its own
    open files; dies without running any of its cleanup against the disk."""

    def __init__(self, world: "World", name: str) -> None:
        self.world = world
        self.name = name
        self.modules: dict = {}
        self.locks: dict[int, SimRLock] = {}
        self.dead = False
        self.files: list[SimFile] = []
        self.fs_calls = 0
        self.tmp_counter = 0

    def __repr__(self) -> str:
        return f"<SimProc {self.name}{' dead' if self.dead else ''}>"

    def kill(self) -> None:
        self.dead = True
        for f in self.files:
            f._drop()
        self.files = []
        sched = self.world.sched
        for lk in self.locks.values():
            if sched is not None:
                for t in sched.tasks:
                    if t.proc is self:
                        lk.force_release(t)
            lk.owner = None
            lk.count = 0
        self.modules = {}

    def lock_for(self, key: int) -> SimRLock:
        lk = self.locks.get(key)
        if lk is None:
            world = self.world
            lk = self.locks[key] = SimRLock(
                lambda: world.sched, "L%d" % len(self.locks))
        return lk

    def on_task_done(self, task) -> None:
        # a task that ends while holding the process lock would wedge its
        # siblings; real RLocks behave the same, so do not paper over it
        pass


class SimFile(io.RawIOBase):
    """Write side of a file with a user-space write-behind buffer of
    ``block`` bytes: data reaches the OS in whole blocks or at flush/close;
    whatever is still buffered when the process dies is lost."""

    def __init__(self, world: "World", proc: SimProc, fd: int, path: str,
                 block: int) -> None:
        super().__init__()
        self.world = world
        self.proc = proc
        self.fd = fd
        self.path = path
        self.block = block
        self.buf = bytearray()
        self.handed = bytearray()     # everything the writer gave us
        self._closed = False
        proc.files.append(self)

    def writable(self) -> bool:
        return True

    def readable(self) -> bool:
        return False

    def seekable(self) -> bool:
        return False

    def fileno(self) -> int:
        return self.fd

    @property
    def closed(self) -> bool:       # type: ignore[override]
        return self._closed

    def _emit(self, n: int, kind: str) -> None:
        chunk = bytes(self.buf[:n])
        fault = self.world.fs_event(kind, self.path)
        if fault in ("enospc", "eio"):
            half = chunk[:len(chunk) // 2]
            if half:
                real.os_write(self.fd, half)
                del self.buf[:len(half)]
            raise OSError(ERRNO[fault], os.strerror(ERRNO[fault]))
        real.os_write(self.fd, chunk)
        del self.buf[:n]

    def write(self, data) -> int:       # type: ignore[override]
        if self.proc.dead:
            raise SimCrash()
        if self._closed:
            raise ValueError("write to closed file")
        data = bytes(data)
        self.buf += data
        self.handed += data
        while self.block and len(self.buf) >= self.block:
            self._emit(self.block, "write")
        return len(data)

    def flush(self) -> None:
        if self._closed or self.proc.dead:
            return
        while self.buf:
            n = min(len(self.buf), self.block or len(self.buf))
            self._emit(n, "close-flush")

    def close(self) -> None:
        if self._closed:
            return
        if self.proc.dead:
            self._drop()
            raise SimCrash()
        try:
            self.flush()
        finally:
            if not self._closed:
                self._closed = True
                try:
                    # the descriptor is closed even when the flush failed,
                    # like io.BufferedWriter does
                    real.os_close(self.fd)
                except OSError:
                    pass
                if self in self.proc.files:
                    self.proc.files.remove(self)
                self.world.note_complete(self.path, bytes(self.handed))
        self.world.fs_event("close", self.path)

    def _drop(self) -> None:
        if not self._closed:
            self._closed = True
            self.buf.clear()
            try:
                real.os_close(self.fd)
            except OSError:
                pass

    def __del__(self) -> None:   # never flush from the garbage collector
        try:
            self._drop()
        except Exception:
            pass


class World:
    """One run's sandbox: scratch directory, processes, fault plan, log."""

    def __init__(self, log: EventLog, plan: dict | None = None,
                 block: int = 4096, tag: str = "w",
                 root: str | None = None, real_crash: bool = False) -> None:
        self.log = log
        self.external_root = root is not None
        self.real_crash = real_crash    # crash = os._exit (a real process)
        self.root = root or tempfile.mkdtemp(
            # (fixed width: chameleon abbreviates long file names in
            # error messages to their last characters - where the cut
            # lands must not depend on the number of digits of the pid)
            prefix=f"verif-{os.getpid():07d}-{tag}-", dir=SCRATCH_BASE)
        self.sched: Scheduler | None = None
        self.block = block
        # plan: {"<proc>#<n>": {"kind": ...}}  n = 1-based fs call of proc
        self.plan = dict(plan or {})
        self.fired: dict[str, int] = {}
        self.skipped: dict[str, int] = {}
        self.crash_sites: list[str] = []
        self.event_kinds: dict[str, int] = {}
        self.procs: list[SimProc] = []
        self._tls = threading.local()
        self.complete: dict[str, list[bytes]] = {}   # path -> complete contents
        self.final_candidates: dict[str, list[bytes]] = {}
        self.on_crash = None         # callable(proc, label)
        self.after_event = None      # callable(kind, path)
        self.total_events = 0
        self.trace: list[tuple[str, str]] = []
        self.sticky: dict[str, tuple[str, int]] = {}
        self.armed: dict[str, dict] = {}
        self.read_events = False
        self._baseline = set(sys.modules)

    # -- lifecycle ---------------------------------------------------------
    def activate(self) -> None:
        global _active
        install()
        self._prev_active = _active
        _active = self

    def close(self) -> None:
        global _active
        if _active is self:
            _active = self._prev_active
        for p in self.procs:
            for f in list(p.files):
                f._drop()
        self.leave_proc(None)
        if not self.external_root:
            shutil.rmtree(self.root, ignore_errors=True)

    def path(self, *parts: str) -> str:
        return os.path.join(self.root, *parts)

    def rel(self, path) -> str:
        p = os.fspath(path)
        if p.startswith(self.root):
            return p[len(self.root):].lstrip("/")
        return p

    def owns(self, path) -> bool:
        try:
            p = os.fspath(path)
        except TypeError:
            return False
        if isinstance(p, bytes):
            return False
        return p.startswith(self.root)

    # -- processes ---------------------------------------------------------
    def new_proc(self, name: str) -> SimProc:
        p = SimProc(self, name)
        self.procs.append(p)
        return p

    # -- per-process module tables ---------------------------------------
    # Modules that were loaded from files under the sandbox belong to the
    # simulated process that loaded them.  On every switch between
    # processes they are taken out of / put back into the real
    # ``sys.modules``, so the code under test sees a per-process table no
    # matter how it reaches it.
    def _sandbox_modules(self) -> list[str]:
        out = []
        root = self.root
        for k, m in list(sys.modules.items()):
            if k in self._baseline:
                continue
            f = getattr(m, "__file__", None)
            if isinstance(f, str) and f.startswith(root):
                out.append(k)
            elif f is None:
                spec = getattr(m, "__spec__", None)
                o = getattr(spec, "origin", None)
                if isinstance(o, str) and o.startswith(root):
                    out.append(k)
        return out

    def leave_proc(self, proc: "SimProc | None") -> None:
        keys = self._sandbox_modules()
        taken = {k: sys.modules.pop(k) for k in keys}
        if proc is not None and not proc.dead:
            proc.modules = taken

    def enter_proc(self, proc: "SimProc | None") -> None:
        if proc is not None and not proc.dead:
            sys.modules.update(proc.modules)

    def on_switch(self, prev, nxt) -> None:
        pp = prev.proc if prev is not None else None
        np_ = nxt.proc if nxt is not None else None
        if pp is np_:
            return
        self.leave_proc(pp)
        self.enter_proc(np_)

    def current_proc(self) -> SimProc | None:
        ov = getattr(self._tls, "override", _NO)
        if ov is not _NO:
            return ov
        sched = self.sched
        if sched is not None:
            t = sched.current()
            if t is not None:
                return t.proc
        return None

    def _task_proc(self) -> SimProc | None:
        sched = self.sched
        if sched is not None:
            t = sched.current()
            if t is not None:
                return t.proc
        return None

    def as_proc(self, proc: SimProc | None):
        """Run the body *as* ``proc`` (atomically: its file-system calls are
        events and fault points but not pre-emption points)."""
        world = self

        class _Ctx:
            def __enter__(self_inner):
                self_inner.prev = world.current_proc()
                self_inner.prev_ov = getattr(world._tls, "override", _NO)
                world.leave_proc(self_inner.prev)
                world._tls.override = proc
                world.enter_proc(proc)
                return proc

            def __exit__(self_inner, *a):
                world.leave_proc(proc)
                world._tls.override = self_inner.prev_ov
                if self_inner.prev_ov is _NO:
                    del world._tls.override
                world.enter_proc(self_inner.prev)

        return _Ctx()

    def harness(self):
        """Harness-side work: nothing is intercepted, nothing is swapped."""
        world = self

        class _Ctx:
            def __enter__(self_inner):
                self_inner.prev_ov = getattr(world._tls, "override", _NO)
                world._tls.override = None

            def __exit__(self_inner, *a):
                world._tls.override = self_inner.prev_ov
                if self_inner.prev_ov is _NO:
                    del world._tls.override

        return _Ctx()

    # -- events ------------------------------------------------------------
    def fs_event(self, kind: str, path) -> str | None:
        """Returns the errno-style fault to apply (or None); raises
        SimCrash when the calling process is, or now becomes, dead."""
        proc = self.current_proc()
        if proc is None:
            return None
        if proc.dead:
            raise SimCrash()
        proc.fs_calls += 1
        self.total_events += 1
        self.event_kinds[kind] = self.event_kinds.get(kind, 0) + 1
        self.trace.append((proc.name, kind))
        # (digests of file templates embed the sandbox path: normalise)
        label = f"fs:{kind}:{_HEX32.sub('H', self.rel(path))}"
        sched = self.sched
        if sched is not None and sched.current() is not None and \
                getattr(self._tls, "override", _NO) is _NO:
            sched.yield_point(label, interesting=True, access=True, fs=True)
            if proc.dead:              # killed while parked
                raise SimCrash()
        else:
            self.log.add("ev", proc.name, label)
        key = f"{proc.name}#{proc.fs_calls}"
        fault = self.plan.get(key)
        arm = self.armed.get(proc.name)
        if fault is None and arm is not None and \
                (arm["kinds"] is None or kind in arm["kinds"]) and \
                (arm.get("path") is None or
                 os.fspath(path).endswith(arm["path"])):
            # "the nth call of one of these kinds from now on"
            arm["nth"] -= 1
            if arm["nth"] <= 0:
                del self.armed[proc.name]
                if arm.get("action") is not None:
                    # not a failure of this call: something else happens in
                    # the world just before it (another process writes)
                    self.fired[arm["kind"]] = \
                        self.fired.get(arm["kind"], 0) + 1
                    self.log.add("ACTION", arm["kind"], proc.name, label)
                    arm["action"]()
                else:
                    fault = {"kind": arm["kind"],
                             "span": arm.get("span", 1), "force": True}
        if fault is None:
            st = self.sticky.get(proc.name)
            if st is not None and st[1] > 0 and kind in APPLICABLE[st[0]]:
                # a persisting fault (bad sector, full disk): the next
                # applicable calls of this process fail the same way
                self.sticky[proc.name] = (st[0], st[1] - 1)
                self.fired[st[0]] = self.fired.get(st[0], 0) + 1
                self.fired["persisting"] = self.fired.get("persisting", 0) + 1
                self.log.add("FAULT+", st[0], proc.name, label)
                return st[0]
        if fault is None:
            if self.after_event is not None:
                self.after_event(kind, path)
            return None
        fk = fault["kind"]
        if fk == "crash":
            self.fired["crash"] = self.fired.get("crash", 0) + 1
            self.crash_sites.append(f"{kind}@{proc.fs_calls}")
            self.log.add("CRASH", proc.name, label)
            if self.real_crash:
                os._exit(137)           # the process really dies here
            proc.kill()
            if self.on_crash is not None:
                self.on_crash(proc, label)
            raise SimCrash()
        if fk == "intr":
            # the process is interrupted inside this call (Ctrl-C, a
            # cancelled worker) - and lives on: the exception unwinds
            # through chameleon into the caller, who may try again
            self.fired[fk] = self.fired.get(fk, 0) + 1
            self.log.add("FAULT", fk, proc.name, label)
            raise KeyboardInterrupt()
        if kind in APPLICABLE.get(fk, ()) or fault.get("force"):
            self.fired[fk] = self.fired.get(fk, 0) + 1
            self.log.add("FAULT", fk, proc.name, label)
            if fault.get("span", 1) > 1:
                self.sticky[proc.name] = (fk, fault["span"] - 1)
            return fk
        self.skipped[fk] = self.skipped.get(fk, 0) + 1
        return None

    def note_complete(self, path: str, content: bytes) -> None:
        self.complete.setdefault(path, []).append(content)

    def note_rename(self, src: str, dst: str) -> None:
        c = self.complete.get(src)
        if c:
            self.final_candidates.setdefault(dst, []).extend(c)

    def snapshot(self, sub: str, name: str) -> str:
        """Harness-side copy of a sandbox directory (not an event)."""
        dst = self.path(name)
        with self.harness():
            shutil.copytree(self.path(sub), dst)
        return dst


def _world_for(path) -> "World | None":
    w = _active
    if w is None or not w.owns(path):
        return None
    if w.current_proc() is None:
        return None
    return w


def _raise(fault: str, path) -> None:
    raise OSError(ERRNO[fault], os.strerror(ERRNO[fault]), os.fspath(path))


def install() -> None:
    """Patch the stdlib seams (idempotent)."""
    global _installed
    if _installed:
        return
    _installed = True

    def rename(src, dst, *a, **k):
        w = _world_for(dst) or _world_for(src)
        if w is None:
            return real.rename(src, dst, *a, **k)
        f = w.fs_event("rename", dst)
        if f:
            _raise(f, dst)
        r = real.rename(src, dst, *a, **k)
        w.note_rename(os.fspath(src), os.fspath(dst))
        if w.after_event is not None:
            w.after_event("renamed", dst)
        return r

    def replace(src, dst, *a, **k):
        w = _world_for(dst) or _world_for(src)
        if w is None:
            return real.replace(src, dst, *a, **k)
        f = w.fs_event("rename", dst)
        if f:
            _raise(f, dst)
        r = real.replace(src, dst, *a, **k)
        w.note_rename(os.fspath(src), os.fspath(dst))
        if w.after_event is not None:
            w.after_event("renamed", dst)
        return r

    def remove(path, *a, **k):
        w = _world_for(path)
        if w is None:
            return real.remove(path, *a, **k)
        f = w.fs_event("remove", path)
        if f:
            _raise(f, path)
        return real.remove(path, *a, **k)

    def fdopen(fd, mode="r", *a, **k):
        w = _active
        if w is not None and isinstance(fd, int) and fd in w_fds(w) and \
                w.current_proc() is not None:
            path = w_fds(w).pop(fd)
            proc = w.current_proc()
            f = w.fs_event("fdopen", path)
            if f:
                _raise(f, path)
            sf = SimFile(w, proc, fd, path, w.block)
            if "b" in mode:
                return sf
            return io.TextIOWrapper(sf, encoding=k.get("encoding"),
                                    write_through=False)
        return real.fdopen(fd, mode, *a, **k)

    def exists(path):
        w = _world_for(path)
        if w is None:
            return real.exists(path)
        f = w.fs_event("exists", path)
        if f == "enoent":
            return False
        return real.exists(path)

    def getmtime(path):
        w = _world_for(path)
        if w is None:
            return real.getmtime(path)
        f = w.fs_event("getmtime", path)
        if f:
            _raise(f, path)
        return real.getmtime(path)

    def mkstemp(suffix=None, prefix=None, dir=None, text=False):
        w = _world_for(dir) if dir is not None else None
        if w is None:
            return real.mkstemp(suffix, prefix, dir, text)
        proc = w.current_proc()
        f = w.fs_event("mkstemp", dir)
        if f:
            _raise(f, dir)
        while True:
            proc.tmp_counter += 1
            name = os.path.join(
                os.fspath(dir), "%s%s_%06d%s" % (
                    prefix or "tmp", proc.name, proc.tmp_counter,
                    suffix or ""))
            try:
                fd = real.os_open(
                    name, os.O_RDWR | os.O_CREAT | os.O_EXCL, 0o600)
            except FileExistsError:
                continue
            w_fds(w)[fd] = name
            return fd, name

    def pycompile(file, *a, **k):
        w = _world_for(file)
        if w is None:
            return real.pycompile(file, *a, **k)
        f = w.fs_event("pyc", file)
        if f:
            _raise(f, file)
        if not getattr(w, "pyc_steps", False):
            return real.pycompile(file, *a, **k)
        # What py_compile does, step by step (importlib's _write_atomic):
        # compile; create '<cfile>.<id(path)>' with O_EXCL; write; replace.
        # The temporary name is unique within one process only: workers
        # forked from one parent hold equal object addresses, so siblings
        # that store the same module at the same time use the same name
        # (w.pyc_group: the processes of one concurrent phase).
        import importlib.util
        cfile = importlib.util.cache_from_source(os.fspath(file))
        priv = cfile + ".harness-%s" % w.current_proc().name
        os.makedirs(os.path.dirname(cfile), exist_ok=True)
        real.pycompile(file, cfile=priv, doraise=False)
        with real.open(priv, "rb") as fh:
            data = fh.read()
        real.remove(priv)
        tmp = "%s.%d" % (cfile, 140000000000000 + getattr(w, "pyc_group", 0))
        f = w.fs_event("pyc-open", tmp)
        if f:
            _raise(f, tmp)
        fd = real.os_open(tmp, os.O_EXCL | os.O_CREAT | os.O_WRONLY, 0o644)
        try:
            try:
                f = w.fs_event("pyc-write", tmp)
                if f:
                    _raise(f, tmp)
                real.os_write(fd, data)
            finally:
                real.os_close(fd)
            f = w.fs_event("pyc-replace", cfile)
            if f:
                _raise(f, cfile)
            real.replace(tmp, cfile)
        except OSError:
            try:
                real.unlink(tmp)
            except OSError:
                pass
            raise
        return cfile

    def open_(file, mode="r", *a, **k):
        if isinstance(file, int):
            return real.open(file, mode, *a, **k)
        hook = open_fault[0]
        if hook is not None:
            # (a fault outside any simulated world: e.g. while an error
            # message is being formatted)
            eno = hook(file, mode)
            if isinstance(eno, str):
                # (the process runs under another locale: text files are
                # decoded with this encoding unless one is asked for)
                if "b" not in mode and "encoding" not in k and len(a) < 2:
                    return real.open(file, mode, *a, encoding=eno, **k)
            elif eno:
                raise OSError(eno, os.strerror(eno), os.fspath(file))
        w = _world_for(file)
        if w is None:
            return real.open(file, mode, *a, **k)
        if any(c in mode for c in "wax+"):
            proc = w.current_proc()
            f = w.fs_event("open-write", file)
            if f:
                _raise(f, file)
            flags = os.O_WRONLY | os.O_CREAT
            if "w" in mode:
                flags |= os.O_TRUNC
            if "a" in mode:
                flags |= os.O_APPEND
            if "x" in mode:
                flags |= os.O_EXCL
            fd = real.os_open(os.fspath(file), flags, 0o644)
            sf = SimFile(w, proc, fd, os.fspath(file), w.block)
            if "b" in mode:
                return sf
            return io.TextIOWrapper(sf, encoding=k.get("encoding"))
        f = w.fs_event("open-read", file)
        if f:
            _raise(f, file)
        fo = real.open(file, mode, *a, **k)
        if w.read_events:
            return _ReadFile(w, fo, file)
        return fo

    from importlib.machinery import SourceFileLoader
    real_get_data = SourceFileLoader.get_data

    def get_data(self, path):
        w = _world_for(path)
        if w is not None:
            f = w.fs_event("load-read", path)
            if f:
                _raise(f, path)
        return real_get_data(self, path)

    SourceFileLoader.get_data = get_data

    def os_write(fd, data):
        """Raw writes on a descriptor that mkstemp handed out in the
        sandbox: an event; under ENOSPC the kernel writes what fits and
        returns a *short count* (the next write then fails)."""
        w = _active
        if w is None or fd not in w_fds(w) or w.current_proc() is None:
            return real.os_write(fd, data)
        path = w_fds(w)[fd]
        raw = w_raw(w).setdefault(fd, {"handed": bytearray(), "full": False})
        raw["handed"] += bytes(data)
        if raw["full"]:
            _raise("enospc", path)
        f = w.fs_event("write", path)
        if f in ("enospc", "eio"):
            if f == "eio":
                _raise(f, path)
            raw["full"] = True
            half = bytes(data)[:len(data) // 2]
            if not half:
                _raise(f, path)
            return real.os_write(fd, half)
        return real.os_write(fd, data)

    def os_close(fd):
        w = _active
        if w is None or fd not in w_fds(w) or w.current_proc() is None:
            return real.os_close(fd)
        path = w_fds(w).pop(fd)
        raw = w_raw(w).pop(fd, None)
        w.fs_event("close", path)
        if raw is not None:
            w.note_complete(path, bytes(raw["handed"]))
        return real.os_close(fd)

    os.write = os_write
    os.close = os_close
    os.rename = rename
    os.replace = replace
    os.remove = remove
    os.unlink = remove
    os.fdopen = fdopen
    os.path.exists = exists
    os.path.getmtime = getmtime
    tempfile.mkstemp = mkstemp
    py_compile.compile = pycompile
    builtins.open = open_


def w_raw(w: World) -> dict:
    d = getattr(w, "_raw", None)
    if d is None:
        d = w._raw = {}                 # type: ignore[attr-defined]
    return d


def w_fds(w: World) -> dict:
    d = getattr(w, "_fds", None)
    if d is None:
        d = w._fds = {}                 # type: ignore[attr-defined]
    return d
