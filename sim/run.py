"""CLI and batch runner.

  python -m sim.run check C15 --tier quick|thorough [--runs N] [--budget S]
  python -m sim.run replay replays/C15-....json
  python -m sim.run selftest C15 [--seeds N]

Exit codes: 0 property held (KNOWN-FINDING lines allowed); 1 at least one
``VIOLATION property=<id> replay=<path>``; 2 harness trouble
(HARNESS-NONDETERMINISM / HARNESS-HANG / HARNESS-ERROR) - never reported as a
violation and never exit 0.
"""
from __future__ import annotations

import sys

from .core import bootstrap

if __name__ == "__main__":
    bootstrap()

import argparse
import concurrent.futures as cf
import faulthandler
import importlib
import json
import multiprocessing
import os
import subprocess
import time
import traceback

from .core import VERIF_ROOT, Choices, canonical, run_seed, short_hash

CHECKS = {
    "C04": "sim.checks.c04",
    "C12": "sim.checks.c12",
    "C13": "sim.checks.c13",
    "C14": "sim.checks.c14",
    "C15": "sim.checks.c15",
    "C16": "sim.checks.c16",
}

NPROC = int(os.environ.get("VERIF_NPROC", "0")) or min(16, os.cpu_count() or 4)


def load_check(prop: str):
    mod = importlib.import_module(CHECKS[prop])
    return mod.CHECK


def load_known(prop: str) -> list[dict]:
    path = os.path.join(VERIF_ROOT, "known_findings.json")
    if not os.path.exists(path):
        return []
    with open(path) as f:
        data = json.load(f)
    return [e for e in data.get("findings", [])
            if e.get("property") == prop]


# --------------------------------------------------------------------------
# worker side
# --------------------------------------------------------------------------

_WCHECK = None
# C14 is also about what one use leaves behind for the next: a violation
# that shows only after the runs this worker executed before (state kept in
# a process-wide cache of the library) is replayed together with them.
HISTORY_PROPS = ("C14",)
_RECENT: list = []


def _winit(prop: str) -> None:
    global _WCHECK
    _WCHECK = load_check(prop)
    _WCHECK.warmup()


def _merge_counts(dst: dict, src: dict) -> None:
    for k, v in src.items():
        if isinstance(v, dict):
            _merge_counts(dst.setdefault(k, {}), v)
        elif isinstance(v, (int, float)):
            dst[k] = dst.get(k, 0) + v
        else:
            dst[k] = v


def _wrun(args):
    prop, base_seed, tier, indices, known_sigs, deadline, run_timeout = args
    global _WCHECK
    if _WCHECK is None:
        _winit(prop)
    chk = _WCHECK
    out = {"runs": 0, "events": 0, "stats": {}, "cover": {}, "nontrivial": [],
           "violations": [], "known": {}, "samples": [], "errors": [],
           "sim_time": 0.0}
    for idx in indices:
        if time.time() > deadline:
            break
        seed = run_seed(base_seed, prop, idx)
        prelude = list(_RECENT)
        faulthandler.dump_traceback_later(run_timeout, exit=True)
        try:
            case = chk.gen(Choices(seed), tier)
            res = chk.run(case)
        except BaseException:           # noqa: BLE001 - harness bug
            faulthandler.cancel_dump_traceback_later()
            out["errors"].append({"idx": idx, "seed": seed,
                                  "tb": traceback.format_exc()[-3000:]})
            continue
        faulthandler.cancel_dump_traceback_later()
        if prop in HISTORY_PROPS:
            _RECENT.append(idx)     # (regenerated from its seed on replay)
            del _RECENT[:-400]
        out["runs"] += 1
        out["events"] += res.get("events", 0)
        out["sim_time"] += res.get("sim_time", 0.0)
        _merge_counts(out["stats"], res.get("stats", {}))
        for k in res.get("cover", ()):
            out["cover"][k] = out["cover"].get(k, 0) + 1
        nt = res.get("nontrivial")
        if nt:
            out["nontrivial"].extend(nt if isinstance(nt, list) else [nt])
        if res.get("harness"):
            out["errors"].append({"idx": idx, "seed": seed,
                                  "tb": "HARNESS: " + str(res["harness"])})
            continue
        new = []
        for v in res.get("violations", ()):
            if v.get("sig") in known_sigs:
                out["known"][v["sig"]] = out["known"].get(v["sig"], 0) + 1
            else:
                new.append(v)
        if new and len(out["violations"]) < 2:
            v0 = new[0]
            faulthandler.dump_traceback_later(run_timeout * 40, exit=True)
            try:
                small = chk.minimise(case, v0, known_sigs)
            except BaseException:       # noqa: BLE001
                small = case
                out["errors"].append({"idx": idx, "seed": seed,
                                      "tb": "minimise: " +
                                      traceback.format_exc()[-2000:]})
            faulthandler.cancel_dump_traceback_later()
            out["violations"].append({"idx": idx, "seed": seed,
                                      "violation": v0, "case": small,
                                      "prelude": prelude if prop in
                                      HISTORY_PROPS else None,
                                      "orig_case_hash": short_hash(case)})
        elif new:
            out["violations"].append({"idx": idx, "seed": seed,
                                      "violation": new[0], "case": None})
        if len(out["samples"]) < 2 and idx % 7 == 0:
            try:
                out["samples"].append(chk.sample(case, res))
            except Exception:
                pass
    return out


# --------------------------------------------------------------------------
# parent side
# --------------------------------------------------------------------------

def _fresh_digests(prop: str, base_seed: int, tier: str, idxs: list[int],
                   hashseed: str) -> dict | None:
    env = dict(os.environ)
    env["PYTHONHASHSEED"] = hashseed
    env["VERIF_HASHSEED"] = hashseed
    cmd = [sys.executable, "-m", "sim.run", "digests", prop, "--tier", tier,
           "--seed", str(base_seed), "--idx", ",".join(map(str, idxs))]
    try:
        p = subprocess.run(cmd, cwd=VERIF_ROOT, env=env, capture_output=True,
                           text=True, timeout=600)
    except subprocess.TimeoutExpired:
        return None
    if p.returncode != 0:
        sys.stderr.write(p.stdout[-2000:] + p.stderr[-4000:])
        return None
    for line in p.stdout.splitlines():
        if line.startswith("DIGESTS "):
            return json.loads(line[8:])
    return None


def digests_inproc(chk, prop, base_seed, tier, idxs) -> dict:
    out = {}
    for i in idxs:
        case = chk.gen(Choices(run_seed(base_seed, prop, i)), tier)
        res = chk.run(case)
        out[str(i)] = [short_hash(case), res.get("digest")]
    return out


def _replay_fresh(path: str) -> tuple[bool, str | None]:
    """Replay in a fresh interpreter; (reproduced, digest)."""
    p = subprocess.run([sys.executable, "-m", "sim.run", "replay", path],
                       cwd=VERIF_ROOT, capture_output=True, text=True,
                       timeout=900)
    dig = None
    for line in p.stdout.splitlines():
        if line.strip().startswith("digest:"):
            dig = line.split()[1]
    return p.returncode == 1, dig


def determinism_selftest(chk, prop, base_seed, tier, n, fresh=True,
                         verbose=False) -> list[str]:
    """Same seeds twice in this process and once in a fresh interpreter
    with another PYTHONHASHSEED; returns the list of diverging run ids."""
    idxs = list(range(1_000_000, 1_000_000 + n))
    chk.warmup()
    a = digests_inproc(chk, prop, base_seed, tier, idxs)
    b = digests_inproc(chk, prop, base_seed, tier, idxs)
    bad = [i for i in a if a[i] != b[i]]
    if fresh:
        c = _fresh_digests(prop, base_seed, tier, idxs, "7")
        if c is None:
            bad.append("fresh-interpreter-failed")
        else:
            bad += [i + "/hashseed" for i in a if a[i] != c.get(i)]
    if verbose:
        print(f"determinism: {n} seeds x {3 if fresh else 2}: "
              f"{'OK' if not bad else 'DIVERGED ' + str(bad)}")
    return bad


def write_replay(prop: str, tier: str, base_seed: int, v: dict,
                 digest: str | None, prelude: list | None = None) -> str:
    d = os.path.join(VERIF_ROOT, "replays")
    os.makedirs(d, exist_ok=True)
    name = f"{prop}-{base_seed}-{v['idx']}.json"
    path = os.path.join(d, name)
    doc = {
        "property": prop, "tier": tier, "base_seed": base_seed,
        "run_index": v["idx"], "run_seed": v["seed"],
        "violation": v["violation"], "case": v["case"], "digest": digest,
        "how": f"/venv/bin/python -m sim.run replay replays/{name}",
    }
    if prelude:
        # the run indices the same process had executed before, in order
        # (each case is regenerated from base_seed and its index)
        doc["prelude"] = prelude
    with open(path, "w") as f:
        json.dump(doc, f, indent=1, sort_keys=True, default=str)
    return os.path.relpath(path, VERIF_ROOT)


def replay_file(path: str, quiet: bool = False) -> tuple[int, dict]:
    with open(path) as f:
        doc = json.load(f)
    prop = doc["property"]
    chk = load_check(prop)
    chk.warmup()
    for i_ in doc.get("prelude") or ():
        try:
            chk.run(chk.gen(Choices(run_seed(doc["base_seed"], prop, i_)),
                            doc.get("tier", "quick")))
        except Exception:       # noqa: BLE001 - only their traces matter
            pass
    res = chk.run(doc["case"])
    want = doc["violation"]["sig"]
    sigs = [v["sig"] for v in res.get("violations", ())]
    ok = want in sigs
    if not quiet:
        print(f"replay {path}: property={prop} expected sig={want}")
        for v in res.get("violations", ()):
            print("  violation:", v["sig"], "-", str(v.get("detail"))[:600])
        print("  digest:", res.get("digest"), "(recorded:", doc.get("digest"),
              ")")
        if ok:
            print(f"VIOLATION property={prop} replay={path}")
        else:
            print("replay did NOT reproduce the recorded violation")
    return (1 if ok else 0), res


def _sweep_scratch() -> None:
    """Remove scratch directories left behind by workers that were killed
    (their names carry the pid of the process that made them)."""
    import re
    import shutil
    from .fs import SCRATCH_BASE
    try:
        names = os.listdir(SCRATCH_BASE)
    except OSError:
        return
    for n in names:
        m = re.match(r"verif-(\d+)-", n)
        if not m:
            continue
        try:
            os.kill(int(m.group(1)), 0)
        except ProcessLookupError:
            shutil.rmtree(os.path.join(SCRATCH_BASE, n), ignore_errors=True)
        except OSError:
            pass


def cmd_check(args) -> int:
    _sweep_scratch()
    prop = args.prop
    tier = args.tier or os.environ.get("VERIF_TIER", "quick")
    base_seed = int(args.seed if args.seed is not None
                    else os.environ.get("VERIF_SEED", "20260924"))
    chk = load_check(prop)
    t0 = time.time()
    budget = args.budget or chk.budget(tier)["seconds"]
    nruns = args.runs or chk.budget(tier)["runs"]
    print(f"# {prop} tier={tier} seed={base_seed} procs={NPROC} "
          f"max_runs={nruns} budget={budget}s repo={os.environ.get('VERIF_REPO', '/repo')}")
    sys.stdout.flush()

    known = load_known(prop)
    known_sigs = sorted({e["signature"] for e in known
                         if e.get("status") == "known"})

    # 1. determinism self-test (reduced form inside every check)
    nd = chk.budget(tier).get("det_seeds", 8)
    bad = determinism_selftest(chk, prop, base_seed, tier, nd,
                               fresh=not args.no_fresh, verbose=True)
    nondet = bad
    if bad:
        # keep going: if the batch finds a violation that replays in a
        # fresh interpreter, that is what explains the divergence (state
        # leaking between runs) and it is reported as such; otherwise the
        # run ends with HARNESS-NONDETERMINISM and exit 2
        print(f"# determinism self-test diverged on runs {bad}; continuing "
              "to look for a replayable violation")
    det_s = time.time() - t0

    # 2. the batch
    deadline = t0 + budget
    chunk = max(1, min(50, nruns // (NPROC * 8) or 1))
    chunks = [list(range(i, min(i + chunk, nruns)))
              for i in range(0, nruns, chunk)]
    agg = {"runs": 0, "events": 0, "stats": {}, "cover": {}, "nontrivial": set(),
           "violations": [], "known": {}, "samples": [], "errors": [],
           "sim_time": 0.0}
    run_timeout = chk.budget(tier).get("run_timeout", 120)
    ctx = multiprocessing.get_context("fork")
    dead_workers = 0
    with cf.ProcessPoolExecutor(NPROC, mp_context=ctx, initializer=_winit,
                                initargs=(prop,)) as ex:
        futs = [ex.submit(_wrun, (prop, base_seed, tier, c, known_sigs,
                                  deadline, run_timeout)) for c in chunks]
        try:
            for fu in cf.as_completed(futs, timeout=budget + 900):
                try:
                    r = fu.result()
                except cf.CancelledError:
                    continue
                except cf.process.BrokenProcessPool:
                    dead_workers += 1
                    continue
                agg["runs"] += r["runs"]
                agg["events"] += r["events"]
                agg["sim_time"] += r["sim_time"]
                _merge_counts(agg["stats"], r["stats"])
                _merge_counts(agg["cover"], r["cover"])
                agg["nontrivial"].update(r["nontrivial"])
                _merge_counts(agg["known"], r["known"])
                agg["violations"] += r["violations"]
                agg["errors"] += r["errors"]
                if len(agg["samples"]) < 4:
                    agg["samples"] += r["samples"][:1]
                if len([v for v in agg["violations"] if v["case"]]) >= 3:
                    deadline = 0
                    for f2 in futs:
                        f2.cancel()
        except cf.TimeoutError:
            print(f"HARNESS-HANG property={prop} batch did not finish")
            return 2
    wall = time.time() - t0

    # 3. report
    rc = 0
    if dead_workers or agg["errors"]:
        for e in agg["errors"][:5]:
            print("HARNESS-ERROR", prop, "run", e["idx"], "seed", e["seed"])
            print(e["tb"])
        if dead_workers:
            print(f"HARNESS-ERROR property={prop} {dead_workers} worker(s) "
                  "died (hang watchdog or crash)")
        rc = 2
    reported = 0
    by_sig: dict[str, dict] = {}
    for v in sorted(agg["violations"], key=lambda v: v["idx"]):
        if v["case"] is None:
            continue
        by_sig.setdefault(v["violation"]["sig"], v)
    for v in list(by_sig.values())[:6]:
        path = write_replay(prop, tier, base_seed, v, None)
        # self-replay in a fresh interpreter before reporting
        code, dig = _replay_fresh(path)
        with open(os.path.join(VERIF_ROOT, path)) as f:
            doc = json.load(f)
        doc["digest"] = dig
        doc["self_replay_reproduced"] = bool(code)
        with open(os.path.join(VERIF_ROOT, path), "w") as f:
            json.dump(doc, f, indent=1, sort_keys=True, default=str)
        if not code and prop in HISTORY_PROPS:
            # The minimiser ran in a process whose library-side state the
            # earlier steps of this very case may have changed: does the
            # case as generated reproduce?
            v_ = dict(v, case=chk.gen(Choices(v["seed"]), tier))
            path = write_replay(prop, tier, base_seed, v_, None)
            code, dig = _replay_fresh(path)
            with open(os.path.join(VERIF_ROOT, path)) as f:
                doc = json.load(f)
            doc["digest"] = dig
            doc["self_replay_reproduced"] = bool(code)
            doc["note"] = "not minimised: the reduced case did not " \
                          "reproduce on its own"
            with open(os.path.join(VERIF_ROOT, path), "w") as f:
                json.dump(doc, f, indent=1, sort_keys=True, default=str)
            if code:
                v = v_
        if not code and v.get("prelude"):
            # not on its own - after what the process had done before?
            path = write_replay(prop, tier, base_seed, v, None, v["prelude"])
            code, dig = _replay_fresh(path)
            with open(os.path.join(VERIF_ROOT, path)) as f:
                doc = json.load(f)
            doc["digest"] = dig
            doc["self_replay_reproduced"] = bool(code)
            with open(os.path.join(VERIF_ROOT, path), "w") as f:
                json.dump(doc, f, indent=1, sort_keys=True, default=str)
            if code:
                v["violation"]["detail"] = (
                    "(only after the %d runs the same process executed "
                    "before it - state carried from one use to the next) "
                    % len(v["prelude"])) + str(v["violation"].get("detail"))
        if not code:
            print(f"HARNESS-ERROR property={prop} minimised case for run "
                  f"{v['idx']} does not reproduce ({path}); "
                  "reporting nothing for it")
            rc = max(rc, 2)
            continue
        print("violation:", v["violation"]["sig"], "-",
              str(v["violation"].get("detail"))[:800])
        print(f"VIOLATION property={prop} replay={path}")
        reported += 1
        rc = 1
    if nondet and not reported:
        print(f"HARNESS-NONDETERMINISM property={prop} runs={nondet}")
        rc = max(rc, 2)
    elif nondet:
        print(f"# note: determinism self-test diverged on {nondet}; the "
              "violation(s) above replay in a fresh interpreter")
    if reported:
        rc = 1          # a violation that replays in a fresh interpreter
    n_more = len(agg["violations"]) - reported
    if n_more > 0:
        print(f"# {n_more} further violating run(s) not reported "
              f"individually (distinct signatures: "
              f"{sorted({v['violation']['sig'] for v in agg['violations']})})")
    for e in known:
        if e.get("status") == "known":
            n = agg["known"].get(e["signature"], 0)
            print(f"KNOWN-FINDING: property={prop} {e['what']} "
                  f"[signature={e['signature']} seen_in_this_run={n}]")

    ev = chk.evidence(agg, tier)
    nontrivial = agg["nontrivial"]
    cov = {
        "evaluations": agg["runs"],
        "distinct_nontrivial": len(nontrivial),
        "rule": ev.pop("rule"),
        "samples": agg["samples"][:4] or ev.pop("fallback_samples", []),
        "events_executed": agg["events"],
        "runs_per_hour": int(agg["runs"] / max(wall - det_s, 1e-6) * 3600),
        "seeds": f"run i uses sha256('{base_seed}/{prop}/i')[:8]; "
                 f"i in [0,{agg['runs']}) plus determinism runs",
        "simulated_time": ev.pop("simulated_time", "n/a - the code has no "
                                 "timers, sleeps or deadlines"),
        "faults_fired": agg["stats"].get("fired", {}),
        "faults_planned_but_not_applicable": agg["stats"].get("skipped", {}),
        "distinct": {k: len(v) if isinstance(v, (set, list, dict)) else v
                     for k, v in ev.pop("distinct", {}).items()},
        "probes": ev.pop("probes", {}),
        "real_vs_stub": ev.pop("real_vs_stub"),
        "determinism_selftest": f"{nd} seeds x (2 in-process + 1 fresh "
                                "interpreter, PYTHONHASHSEED=7): identical "
                                "event-log digests",
        "known_findings_seen": agg["known"],
        "workers": NPROC,
    }
    cov.update(ev.pop("extra", {}))
    doc = {
        "property_id": prop, "tier": tier, "seed": base_seed,
        "level": chk.level,
        "coverage": cov,
        "assumptions": ev.pop("assumptions", []),
        "wall_s": round(wall, 2),
        "violations": reported,
    }
    os.makedirs(os.path.join(VERIF_ROOT, "evidence"), exist_ok=True)
    with open(os.path.join(VERIF_ROOT, "evidence", f"{prop}.json"), "w") as f:
        json.dump(doc, f, indent=1, sort_keys=True, default=str)
    print(f"# {prop}: runs={agg['runs']} events={agg['events']} "
          f"nontrivial={len(nontrivial)} known={sum(agg['known'].values())} "
          f"violations={reported} violating_runs={len(agg['violations'])} "
          f"wall={wall:.1f}s rc={rc}")
    return rc


def cmd_replay(args) -> int:
    code, _ = replay_file(args.path)
    return code


def cmd_digests(args) -> int:
    chk = load_check(args.prop)
    chk.warmup()
    idxs = [int(x) for x in args.idx.split(",")]
    d = digests_inproc(chk, args.prop, int(args.seed), args.tier or "quick",
                       idxs)
    print("DIGESTS " + canonical(d))
    return 0


def cmd_selftest(args) -> int:
    chk = load_check(args.prop)
    base_seed = int(args.seed if args.seed is not None
                    else os.environ.get("VERIF_SEED", "20260924"))
    bad = determinism_selftest(chk, args.prop, base_seed, args.tier or "quick",
                               args.seeds, fresh=True, verbose=True)
    return 2 if bad else 0


def main(argv=None) -> int:
    ap = argparse.ArgumentParser(prog="sim.run")
    sub = ap.add_subparsers(dest="cmd", required=True)
    c = sub.add_parser("check")
    c.add_argument("prop")
    c.add_argument("--tier")
    c.add_argument("--seed")
    c.add_argument("--runs", type=int)
    c.add_argument("--budget", type=float)
    c.add_argument("--no-fresh", action="store_true")
    c.set_defaults(fn=cmd_check)
    r = sub.add_parser("replay")
    r.add_argument("path")
    r.set_defaults(fn=cmd_replay)
    d = sub.add_parser("digests")
    d.add_argument("prop")
    d.add_argument("--tier")
    d.add_argument("--seed", default="0")
    d.add_argument("--idx", default="0")
    d.set_defaults(fn=cmd_digests)
    s = sub.add_parser("selftest")
    s.add_argument("prop")
    s.add_argument("--tier")
    s.add_argument("--seed")
    s.add_argument("--seeds", type=int, default=50)
    s.set_defaults(fn=cmd_selftest)
    args = ap.parse_args(argv)
    return args.fn(args)


if __name__ == "__main__":
    rc = main()
    sys.stdout.flush()
    sys.stderr.flush()
    os._exit(rc)
