"""Deterministic simulation harness for malthe/chameleon (see /verif/DESIGN.md)."""
