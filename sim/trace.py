"""Line-level pre-emption via ``sys.monitoring`` (CPython >= 3.12).

A global PY_START callback looks at every code object once: code from the
shared-state modules of chameleon and every generated render function gets
LINE events enabled locally; compile-side modules get local PY_START events
(function-entry granularity); everything else is disabled for good.  The
LINE / PY_START callbacks turn into scheduler yield points when - and only
when - the calling thread is a simulated task.
"""
from __future__ import annotations

import os
import re
import sys

from .core import REPO_SRC

TOOL = 3
mon = sys.monitoring
E = mon.events

FINE = ("template.py", "loader.py", "tal.py", "utils.py", "i18n.py")
FINE_ZPT = ("template.py", "loader.py")
COARSE = ("compiler.py", "parser.py", "tokenize.py", "codegen.py",
          "astutil.py", "tales.py", "program.py", "nodes.py", "exc.py")
GEN_RE = re.compile(r"[0-9a-f]{32}\.py$")
# code-generation steps that work on per-compilation state (a switch to
# another compiling thread here is where shared compile-time state shows)
COMPILE_HOT = {"visit_TranslationContext", "visit_Translate", "visit_Name",
               "visit_EmitText", "visit_TokenRef", "visit_Cache",
               "visit_OnError", "visit_Define", "visit_Macro",
               "visit_UseExternalMacro", "visit_Static", "visit_Symbol",
               "define", "require"}
SHARED_FUNCS = {"cook", "cook_check", "load", "_load", "build", "get",
                "__getitem__", "names", "render", "include", "_cook",
                "read", "mtime", "resolve_dotted"}

_state = {"sched": None, "coarse": False, "installed": False,
          "lines": 0, "starts": 0, "focus": False, "intr": None}
# source lines that read or write state shared between threads
ACCESS_RE = re.compile(
    r"self\._cooked|_v_last_read|setattr\(self|self\.__dict__|"
    r"self\._render|getattr\(self\.template|self\.template\.__dict__|"
    r"self\.registry|sys\.modules|module_cache|_pkg_digest|"
    r"self\.cook_check\(\)|self\.cook\(|self\.content_type|"
    r"self\.source\b|self\.body\b|self\._v_\w+")
LOADER_WRITE_RE = re.compile(r"\bself\.\w+(\[[^\]]*\])?\s*[-+]?=(?!=)|"
                             r"\bself\.\w+,\s*\w+\s*=(?!=)")
_access_cache: dict = {}
from threading import get_ident as _get_ident  # noqa: E402


def is_access(code, line: int) -> bool:
    key = (code.co_filename, line)
    v = _access_cache.get(key)
    if v is None:
        import linecache
        text = linecache.getline(code.co_filename, line)
        v = bool(ACCESS_RE.search(text))
        if not v and code.co_filename.endswith(
                os.sep + "chameleon" + os.sep + "loader.py") and \
                code.co_name != "__init__":
            # a loader is shared by every thread that loads through it:
            # whatever one of its methods writes to it is shared state
            v = bool(LOADER_WRITE_RE.search(text))
        _access_cache[key] = v
    return v
_kind_cache: dict = {}


def classify(code) -> str:
    fn = code.co_filename
    k = _kind_cache.get(fn)
    if k is not None:
        return k
    k = ""
    pkg = os.path.join(REPO_SRC, "chameleon") + os.sep
    if fn.startswith(pkg):
        rel = fn[len(pkg):]
        base = os.path.basename(rel)
        if rel.startswith("tests"):
            k = ""
        elif rel.startswith("zpt" + os.sep):
            k = "fine" if base in FINE_ZPT else "coarse"
        elif base in FINE:
            k = "fine"
        elif base in COARSE:
            k = "coarse"
    elif GEN_RE.search(fn):
        k = "gen"
    _kind_cache[fn] = k
    return k


def _on_start(code, offset):
    k = classify(code)
    if k in ("fine", "gen"):
        try:
            mon.set_local_events(TOOL, code, E.LINE)
        except ValueError:
            pass
        return mon.DISABLE
    if k == "coarse":
        sched = _state["sched"]
        if sched is not None and _state["coarse"] and sched.active:
            t = sched.current()
            if t is not None:
                _state["starts"] += 1
                sched.yield_point("call:" + code.co_name,
                                  interesting=code.co_name in COMPILE_HOT)
        return None
    return mon.DISABLE


class Interrupt:
    """An asynchronous exception (Ctrl-C, a failed allocation, a worker
    being cancelled) delivered to one thread at its n-th LINE event inside
    chameleon's shared-state modules / generated code.  Raised from the
    monitoring callback, it surfaces in the monitored frame exactly as if
    the interpreter had raised it between two lines."""

    def __init__(self, nth: int, make, thread_ident=None,
                 distinct: bool = False, access: bool = False,
                 creturn: bool = False, acquire_only: bool = False) -> None:
        import threading
        self.nth = nth
        self.make = make
        # distinct: count only the first execution of each source line, so
        # that a line which runs once (the store of a flag) is hit as often
        # as one inside a loop
        self.seen = set() if distinct else None
        # access: count only lines that read or write state shared between
        # uses of a template / loader (the flag, the recorded mtime, the
        # installed functions, the registry ...)
        self.access = access
        # creturn: delivered when the n-th call of a C function made from
        # chameleon's template / loader modules returns - which is where
        # CPython really runs signal handlers (the eval-breaker check at
        # the end of a call), e.g. right after lock.acquire() has returned
        # and before the next statement begins
        self.creturn = creturn or acquire_only
        # acquire_only: of those, only the returns of explicit lock.acquire()
        self.acquire_only = acquire_only
        self.thread = thread_ident or threading.get_ident()
        self.count = 0
        self.events = 0         # all line events seen (any mode)
        self.fired = None       # (file, function, line) once delivered


def listening(on: bool) -> None:
    """Keep line events alive between interrupts of one batch (restarting
    them is not free: every code object is instrumented afresh)."""
    if on and not _state.get("listening") and _state["installed"]:
        mon.restart_events()
    _state["listening"] = on


_try_cache: dict = {}


def _is_try_line(code, line: int) -> bool:
    """A line that consists of ``try:`` compiles to a NOP that no exception
    table entry covers (nothing can be raised there - a real asynchronous
    exception is delivered at calls and backward jumps only).  An exception
    raised *by the monitoring callback* at that instruction would leave the
    function without running any enclosing handler, ``with`` exits
    included: an artefact of the injection, not a behaviour of the code."""
    key = (code.co_filename, line)
    v = _try_cache.get(key)
    if v is None:
        import linecache
        txt = linecache.getline(code.co_filename, line).strip()
        # (... and a ``with`` line is reported a second time when
        # __enter__ has returned, at an instruction that precedes the
        # protected region: same artefact)
        v = txt in ("try:", "else:", "finally:") or txt.startswith("with ")
        _try_cache[key] = v
    return v


_fine_codes: list = []


def _on_c_return(code, offset, callable_, arg0):
    it = _state["intr"]
    if it is not None and it.creturn and not it.acquire_only and \
            _get_ident() == it.thread and \
            classify(code) == "fine" and code.co_name != "__del__":
        it.count += 1
        if it.count == it.nth:
            _state["intr"] = None
            _set_call_events(False)
            it.fired = (os.path.basename(code.co_filename), code.co_name,
                        "after " + getattr(callable_, "__name__", "?"))
            raise it.make()
    return None


def after_call_returned(name: str) -> None:
    """Called by the simulator's stand-ins for C-level callables (a lock's
    acquire) when they return: a delivery point for 'creturn' interrupts."""
    it = _state["intr"]
    if it is not None and it.creturn and _get_ident() == it.thread:
        it.count += 1
        if it.count == it.nth:
            _state["intr"] = None
            _set_call_events(False)
            it.fired = ("<lock>", name, "after " + name)
            raise it.make()


def _set_call_events(on: bool) -> None:
    if _state.get("call_events") == on:
        return
    _state["call_events"] = on
    ev = (E.LINE | E.CALL) if on else E.LINE
    for c in _fine_codes:
        try:
            mon.set_local_events(TOOL, c, ev)
        except ValueError:
            pass


def arm_interrupt(it: "Interrupt | None") -> None:
    _set_call_events(bool(it is not None and it.creturn))
    if it is not None and _state["intr"] is None and \
            _state["sched"] is None and _state["installed"] and \
            not _state.get("listening"):
        mon.restart_events()        # (line events switched themselves off)
    _state["intr"] = it


def _on_line(code, line):
    it = _state["intr"]
    if it is not None and code.co_name != "__del__" and \
            not it.creturn and \
            _get_ident() == it.thread and not _is_try_line(code, line):
        it.events += 1
        if (
                it.seen is None or (code, line) not in it.seen) and (
                not it.access or (classify(code) == "fine" and
                                  is_access(code, line))):
            if it.seen is not None:
                it.seen.add((code, line))
            it.count += 1
            if it.count == it.nth:
                _state["intr"] = None
                it.fired = (os.path.basename(code.co_filename),
                            code.co_name, line)
                raise it.make()
    sched = _state["sched"]
    if sched is None:
        # nobody is listening: this location stays silent (and costs
        # nothing) until attach() / arm_interrupt() restart the events
        return mon.DISABLE if it is None and \
            not _state.get("listening") else None
    if not sched.active:
        return None
    t = sched.current()
    if t is None:
        return None
    if code.co_name == "__del__":
        return None                 # finalizers are not schedule points
    _state["lines"] += 1
    k = classify(code)
    if k == "gen":
        if not _state["focus"]:
            sched.yield_point("gen:" + code.co_name)
    else:
        name = code.co_name
        base = os.path.basename(code.co_filename)
        if _state["focus"] and base in ("utils.py", "tal.py", "i18n.py"):
            return None
        acc = is_access(code, line)
        if base == "loader.py":
            # (a thread may also lose the processor right *after* it wrote
            # to the shared loader: the line that follows such a write is a
            # change point as well)
            if _after_write.pop(t, None) is code:
                acc = True
            if acc and name != "__init__" and LOADER_WRITE_RE.search(
                    _line_text(code, line)):
                _after_write[t] = code
        sched.yield_point(
            "line:%s:%s:%d" % (base, name, line),
            interesting=name in SHARED_FUNCS, access=acc)
    return None


_after_write: dict = {}


def _line_text(code, line: int) -> str:
    import linecache
    return linecache.getline(code.co_filename, line)


def _all_code(obj, seen: set):
    """Every code object reachable from a module / class / function."""
    import types
    if id(obj) in seen:
        return
    seen.add(id(obj))
    if isinstance(obj, types.CodeType):
        yield obj
        for c in obj.co_consts:
            if isinstance(c, types.CodeType):
                yield from _all_code(c, seen)
        return
    if isinstance(obj, (types.FunctionType, types.MethodType)):
        yield from _all_code(obj.__code__, seen)
        return
    if isinstance(obj, (staticmethod, classmethod)):
        yield from _all_code(obj.__func__, seen)
        return
    if isinstance(obj, property):
        for f in (obj.fget, obj.fset, obj.fdel):
            if f is not None:
                yield from _all_code(f, seen)
        return
    if isinstance(obj, type):
        for v in vars(obj).values():
            yield from _all_code(v, seen)
        return
    func = getattr(obj, "function", None)     # chameleon's descriptors
    if isinstance(func, types.FunctionType):
        yield from _all_code(func, seen)


def install() -> None:
    """Must be called after chameleon has been imported."""
    if _state["installed"]:
        return
    mon.use_tool_id(TOOL, "verif-sim")
    mon.register_callback(TOOL, E.PY_START, _on_start)
    mon.register_callback(TOOL, E.LINE, _on_line)
    mon.register_callback(TOOL, E.C_RETURN, _on_c_return)
    # instrument the shared-state modules eagerly, so that the first call
    # of a function produces the same events as every later one
    seen: set = set()
    for name, module in sorted(sys.modules.items()):
        if not name.startswith("chameleon") or module is None:
            continue
        for v in list(vars(module).values()):
            if getattr(v, "__module__", name) != name and \
                    not isinstance(v, type(sys)):
                continue
            for code in _all_code(v, seen):
                if classify(code) == "fine":
                    mon.set_local_events(TOOL, code, E.LINE)
                    _fine_codes.append(code)
    mon.set_events(TOOL, E.PY_START)
    _state["installed"] = True


def attach(sched, coarse: bool = False, focus: bool = False) -> None:
    if _state["installed"]:
        mon.restart_events()
    _state["sched"] = sched
    _state["coarse"] = coarse
    _state["focus"] = focus


def detach() -> None:
    _state["sched"] = None
    _state["coarse"] = False
    _state["focus"] = False
