"""Simulation core: seeded choices, event log, baton scheduler with PCT,
simulated re-entrant lock, generic list minimiser.

Nothing in this file knows about chameleon.  Everything a run decides is a
pure function of the *case* (a JSON document) it is given; cases are drawn
from ``Choices(seed)``.  Logging never draws and never reads a clock.
"""
from __future__ import annotations

import hashlib
import json
import os
import random
import sys
import threading

VERIF_ROOT = os.path.dirname(os.path.dirname(os.path.abspath(__file__)))
REPO_ROOT = os.environ.get("VERIF_REPO", "/repo")
REPO_SRC = os.path.join(REPO_ROOT, "src")


def bootstrap() -> None:
    """Pin hash randomisation and import chameleon from the working tree."""
    if os.environ.get("PYTHONHASHSEED") != os.environ.get(
            "VERIF_HASHSEED", "0"):
        env = dict(os.environ)
        env["PYTHONHASHSEED"] = os.environ.get("VERIF_HASHSEED", "0")
        os.execve(sys.executable, [sys.executable] + sys.orig_argv[1:], env)
    if REPO_SRC not in sys.path[:1]:
        sys.path.insert(0, REPO_SRC)
    os.environ.setdefault("MALTHE_CHAMELEON_VERIF", "1")
    for k in list(os.environ):
        # the code under test reads CHAMELEON_* at import time
        if k.upper().startswith("CHAMELEON_"):
            del os.environ[k]


def run_seed(base_seed: int, prop: str, index: int) -> int:
    h = hashlib.sha256(f"{base_seed}/{prop}/{index}".encode()).digest()
    return int.from_bytes(h[:8], "big")


class Choices:
    """The only source of randomness.  ``seed`` decides everything."""

    def __init__(self, seed: int) -> None:
        self.seed = seed
        self._r = random.Random(seed)
        self.n = 0

    def choose(self, n: int, tag: str = "") -> int:
        self.n += 1
        if n <= 1:
            return 0
        return self._r.randrange(n)

    def coin(self, p: float, tag: str = "") -> bool:
        self.n += 1
        return self._r.random() < p

    def pick(self, seq, tag: str = ""):
        return seq[self.choose(len(seq), tag)]

    def weighted(self, pairs, tag: str = ""):
        """pairs: [(weight, value), ...]"""
        total = sum(w for w, _ in pairs)
        x = self._r.random() * total
        self.n += 1
        for w, v in pairs:
            x -= w
            if x < 0:
                return v
        return pairs[-1][1]

    def sample(self, seq, k: int, tag: str = ""):
        self.n += 1
        return self._r.sample(list(seq), k)

    def shuffle(self, seq, tag: str = ""):
        self.n += 1
        seq = list(seq)
        self._r.shuffle(seq)
        return seq

    def randint(self, a: int, b: int, tag: str = "") -> int:
        return a + self.choose(b - a + 1, tag)

    def sub(self, tag: str) -> "Choices":
        return Choices(run_seed(self.seed, tag, self.choose(1 << 30)))


class EventLog:
    """Append-only run log.  The digest is what determinism tests compare."""

    def __init__(self, keep: int = 4000) -> None:
        self._h = hashlib.sha256()
        self.count = 0
        self.keep = keep
        self.tail: list[str] = []

    def add(self, *parts) -> None:
        line = " ".join(str(p) for p in parts)
        self._h.update(line.encode("utf-8", "backslashreplace"))
        self._h.update(b"\n")
        self.count += 1
        if len(self.tail) < self.keep:
            self.tail.append(line)

    def digest(self) -> str:
        return self._h.hexdigest()[:24]


# --------------------------------------------------------------------------
# Scheduler
# --------------------------------------------------------------------------

class SimAbort(BaseException):
    """Raised inside a task to unwind it when the run is being torn down."""


class SimCrash(BaseException):
    """Raised inside a task whose simulated process has been killed."""


class Deadlock(Exception):
    pass


class WouldBlock(Exception):
    """An atomic observer op met a lock held by a parked task."""


class StepLimit(Exception):
    pass


class Task:
    def __init__(self, sched: "Scheduler", name: str, fn, proc=None):
        self.sched = sched
        self.name = name
        self.fn = fn
        self.proc = proc
        self.wake = threading.Event()
        self.state = "runnable"     # runnable | blocked | done
        self.blocked_on = None
        self.result = None
        self.exc: BaseException | None = None
        self.abort = False
        self.crash_pending = False
        self.thread: threading.Thread | None = None
        self.steps = 0
        self.access_events = 0
        self.fs_events = 0
        self.prio = 0
        self._parked = threading.Event()

    def __repr__(self) -> str:
        return f"<Task {self.name} {self.state}>"


class Policy:
    """Decides who runs next.  Subclasses are pure functions of their
    parameters (which live in the case) and the event sequence so far."""

    def assign(self, tasks: list[Task]) -> None:
        pass

    def pick(self, step: int, label: str, cur: Task | None,
             runnable: list[Task]) -> Task:
        raise NotImplementedError


class FifoPolicy(Policy):
    """Keep running the current task; when it cannot run, the first
    runnable one in spawn order.  The 'boring' schedule."""

    def pick(self, step, label, cur, runnable):
        if cur is not None and cur in runnable:
            return cur
        return runnable[0]


class PCTPolicy(Policy):
    """Probabilistic concurrency testing (Burckhardt et al. 2010).

    prios: initial priority per task index (higher runs first)
    changes: list of step numbers at which the running task is demoted.
    """

    def __init__(self, prios: list[int], changes: list[int]) -> None:
        self.prios = list(prios)
        self.changes = sorted(set(changes))
        self._low = -1

    def assign(self, tasks):
        for i, t in enumerate(tasks):
            t.prio = self.prios[i % len(self.prios)] if self.prios else 0

    def pick(self, step, label, cur, runnable):
        if cur is not None and step in self.changes:
            cur.prio = self._low
            self._low -= 1
        best = runnable[0]
        for t in runnable[1:]:
            if t.prio > best.prio:
                best = t
        return best


class PCTAccessPolicy(Policy):
    """PCT whose change points are tied to a task's n-th *shared-state
    access line* instead of a global step number: (task index, n) pairs.
    Such a point keeps its meaning when the rest of the schedule moves."""

    def __init__(self, prios: list[int], points: list) -> None:
        self.prios = list(prios)
        # (task, n) = n-th access line; (task, n, "fs") = n-th fs call
        self.points = {(int(p[0]), int(p[1])) for p in points if len(p) == 2}
        self.fs_points = {(int(p[0]), int(p[1])) for p in points
                          if len(p) == 3}
        self._low = -1
        self.index: dict = {}

    def assign(self, tasks):
        for i, t in enumerate(tasks):
            t.prio = self.prios[i % len(self.prios)] if self.prios else 0
            self.index[t] = i
        self.sched = tasks[0].sched if tasks else None

    def pick(self, step, label, cur, runnable):
        if cur is not None and self.sched is not None and ((
                self.sched.last_access and
                (self.index.get(cur), cur.access_events) in self.points) or (
                self.sched.last_fs and
                (self.index.get(cur), cur.fs_events) in self.fs_points)):
            cur.prio = self._low
            self._low -= 1
        best = runnable[0]
        for t in runnable[1:]:
            if t.prio > best.prio:
                best = t
        return best


class RandomPolicy(Policy):
    def __init__(self, seed: int, p: float) -> None:
        self.r = random.Random(seed)
        self.p = p

    def pick(self, step, label, cur, runnable):
        if cur is not None and cur in runnable and self.r.random() >= self.p:
            return cur
        return runnable[self.r.randrange(len(runnable))]


class ScriptPolicy(Policy):
    """Explicit schedule: at step s switch to task index i (if runnable)."""

    def __init__(self, switches: dict[int, int]) -> None:
        self.switches = {int(k): v for k, v in switches.items()}
        self.tasks: list[Task] = []

    def assign(self, tasks):
        self.tasks = tasks

    def pick(self, step, label, cur, runnable):
        want = self.switches.get(step)
        if want is not None and want < len(self.tasks):
            t = self.tasks[want]
            if t in runnable:
                return t
        if cur is not None and cur in runnable:
            return cur
        return runnable[0]


def make_policy(spec: dict) -> Policy:
    kind = spec.get("kind", "fifo")
    if kind == "fifo":
        return FifoPolicy()
    if kind == "pct":
        return PCTPolicy(spec.get("prios", [0]), spec.get("changes", []))
    if kind == "pctacc":
        return PCTAccessPolicy(spec.get("prios", [0]), spec.get("points", []))
    if kind == "random":
        return RandomPolicy(spec.get("seed", 0), spec.get("p", 0.05))
    if kind == "script":
        return ScriptPolicy(spec.get("switches", {}))
    raise ValueError(kind)


class Scheduler:
    """Real threads, one baton.  Exactly one task thread runs at any time;
    the holder of the baton takes every scheduling decision inline at its
    own yield points, so a 'keep running' decision costs no thread switch.
    """

    def __init__(self, policy: Policy, log: EventLog, max_steps: int = 200000,
                 on_event=None) -> None:
        self.policy = policy
        self.log = log
        self.max_steps = max_steps
        self.tasks: list[Task] = []
        self.step = 0
        self.switches = 0
        self.switch_sig = hashlib.sha256()
        self.cur: Task | None = None
        self._by_ident: dict[int, Task] = {}
        self._done = threading.Event()
        self.failure: BaseException | None = None
        self.on_event = on_event      # callable(task, label) -> None, may raise
        self.active = False
        self.interesting_switches = 0
        self.last_access = False
        self.last_fs = False
        self.atomic = False          # True while an observer op runs inline
        self.on_switch = None        # callable(prev_task|None, next_task|None)

    # -- construction ------------------------------------------------------
    def spawn(self, name: str, fn, proc=None) -> Task:
        t = Task(self, name, fn, proc)
        self.tasks.append(t)
        return t

    def current(self) -> Task | None:
        return self._by_ident.get(threading.get_ident())

    # -- running -----------------------------------------------------------
    def run(self, timeout: float = 120.0) -> None:
        if not self.tasks:
            return
        self.policy.assign(self.tasks)
        for t in self.tasks:
            th = threading.Thread(target=self._body, args=(t,), daemon=True,
                                  name="sim-" + t.name)
            t.thread = th
            th.start()
        # wait until every thread has registered and parked
        for t in self.tasks:
            t._parked.wait()
        self.active = True
        first = self.policy.pick(0, "start", None, list(self.tasks))
        self.cur = first
        if self.on_switch is not None:
            self.on_switch(None, first)
        first.wake.set()
        ok = self._done.wait(timeout)
        self.active = False
        if self.on_switch is not None and ok:
            self.on_switch(self.cur, None)
        if not ok:
            # harness trouble: unblock everything and report
            self.failure = TimeoutError("scheduler wall-clock timeout")
            for t in self.tasks:
                t.abort = True
                t.wake.set()
        for t in self.tasks:
            if t.thread is not None:
                t.thread.join(5.0)

    def _body(self, t: Task) -> None:
        self._by_ident[threading.get_ident()] = t
        t._parked.set()
        t.wake.wait()
        t.wake.clear()
        try:
            if t.abort:
                raise SimAbort()
            t.result = t.fn()
        except SimAbort:
            t.exc = None
            t.result = ("aborted",)
        except BaseException as e:      # noqa: BLE001 - recorded, not hidden
            t.exc = e
        finally:
            t.state = "done"
            self._by_ident.pop(threading.get_ident(), None)
            try:
                self._task_finished(t)
            except BaseException as e:  # noqa: BLE001
                self.failure = e
                self._done.set()

    def _runnable(self) -> list[Task]:
        return [t for t in self.tasks if t.state == "runnable"]

    def _task_finished(self, t: Task) -> None:
        self.log.add("done", t.name)
        if t.proc is not None and hasattr(t.proc, "on_task_done"):
            t.proc.on_task_done(t)
        runnable = self._runnable()
        if runnable:
            nxt = self.policy.pick(self.step, "done", None, runnable)
            self._handoff(None, nxt, prev=t)
            return
        blocked = [x for x in self.tasks if x.state == "blocked"]
        if blocked:
            self.failure = Deadlock(
                "deadlock: " + ", ".join(
                    f"{x.name} waits for {x.blocked_on}" for x in blocked))
            self.log.add("deadlock")
            for x in blocked:
                x.abort = True
                x.state = "runnable"
                x.wake.set()
            # the aborted tasks finish on their own; last one sets _done
            return
        self._done.set()

    def _handoff(self, me: Task | None, nxt: Task, prev=None) -> None:
        """Give the baton to ``nxt``; if ``me`` is a live task, park it."""
        if nxt is me:
            return
        self.switches += 1
        self.switch_sig.update(f"{self.step}>{nxt.name};".encode())
        if self.on_switch is not None:
            self.on_switch(me if me is not None else prev, nxt)
        self.cur = nxt
        nxt.wake.set()
        if me is not None:
            me.wake.wait()
            me.wake.clear()
            if me.abort:
                raise SimAbort()

    def yield_point(self, label: str, interesting: bool = False,
                    access: bool = False, fs: bool = False) -> None:
        """Called by task threads at every event.  ``access``: the event
        is a source line that touches state shared between tasks."""
        me = self.current()
        if me is None or not self.active or self.atomic:
            return
        if me.abort:
            raise SimAbort()
        self.step += 1
        me.steps += 1
        if access:
            me.access_events += 1
        if fs:
            me.fs_events += 1
        self.last_access = access
        self.last_fs = fs
        self.log.add("ev", self.step, me.name, label)
        if self.step > self.max_steps:
            self.failure = StepLimit(f"more than {self.max_steps} events")
            for t in self.tasks:
                t.abort = True
                if t is not me and t.state != "done":
                    t.state = "runnable"
                    t.wake.set()
            raise SimAbort()
        if self.on_event is not None:
            self.on_event(me, label)
        runnable = self._runnable()
        nxt = self.policy.pick(self.step, label, me, runnable)
        if nxt is not me:
            if interesting:
                self.interesting_switches += 1
            self._handoff(me, nxt)

    def block(self, me: Task, on) -> None:
        """Park ``me`` until somebody calls ``unblock``."""
        me.state = "blocked"
        me.blocked_on = on
        self.log.add("block", me.name, on)
        runnable = self._runnable()
        if not runnable:
            blocked = [x for x in self.tasks if x.state == "blocked"]
            self.failure = Deadlock(
                "deadlock: " + ", ".join(
                    f"{x.name} waits for {x.blocked_on}" for x in blocked))
            self.log.add("deadlock")
            for x in blocked:
                x.abort = True
                x.state = "runnable"
                if x is not me:
                    x.wake.set()
            raise SimAbort()
        nxt = self.policy.pick(self.step, "block", None, runnable)
        self._handoff(me, nxt)
        # (when we are resumed the baton - and our module table - is ours)

    def unblock(self, t: Task) -> None:
        if t.state == "blocked":
            t.state = "runnable"
            t.blocked_on = None


_OBSERVER = type("Observer", (), {"name": "observer"})()


class SimRLock:
    """Re-entrant lock whose blocking is a scheduling event."""

    def __init__(self, sched_getter, name: str = "lock") -> None:
        self._get = sched_getter
        self.name = name
        self.owner = None
        self.count = 0
        self.waiters: list[Task] = []
        self.acquisitions = 0
        self.contended = 0

    def acquire(self, blocking: bool = True, timeout: float = -1) -> bool:
        sched: Scheduler | None = self._get()
        me = sched.current() if sched is not None else None
        if me is None:
            # outside the simulation (sequential phases): plain counter
            self.owner = "main"
            self.count += 1
            return True
        if getattr(me.proc, "dead", False):
            raise SimCrash()
        if sched.atomic:
            # The atomic observer borrows the thread of the task that is at
            # the yield point, but it is a thread of its own: a lock that
            # this very task holds is not the observer's.
            if self.owner is not None and self.owner is not _OBSERVER:
                raise WouldBlock(self.name)
            self.owner = _OBSERVER
            self.count += 1
            self.acquisitions += 1
            return True
        sched.yield_point("lock:acquire:" + self.name, interesting=True)
        while self.owner is not None and self.owner is not me:
            self.contended += 1
            self.waiters.append(me)
            sched.block(me, self.name)
            if getattr(me.proc, "dead", False):
                raise SimCrash()
        self.owner = me
        self.count += 1
        self.acquisitions += 1
        return True

    def release(self) -> None:
        sched: Scheduler | None = self._get()
        me = sched.current() if sched is not None else None
        if me is None:
            self.count = max(0, self.count - 1)
            if self.count == 0:
                self.owner = None
            return
        if getattr(me.proc, "dead", False):
            return                  # a dead process releases nothing
        if sched.atomic and self.owner is _OBSERVER:
            self.count -= 1
            if self.count == 0:
                self.owner = None
            return
        if self.owner is not me:
            raise RuntimeError("cannot release un-acquired lock")
        self.count -= 1
        if self.count == 0:
            self.owner = None
            ws, self.waiters = self.waiters, []
            for w in ws:
                sched.unblock(w)
        # releasing is an event too (a waiter may now overtake), but a
        # dying task must not be pre-empted inside its own unwinding
        if not me.abort and not getattr(me.proc, "dead", False):
            sched.yield_point("lock:release:" + self.name, interesting=True)

    def force_release(self, task) -> None:
        """The owner's process died: the OS drops its locks."""
        if self.owner is task:
            self.owner = None
            self.count = 0
            sched = self._get()
            ws, self.waiters = self.waiters, []
            for w in ws:
                if sched is not None:
                    sched.unblock(w)

    __enter__ = acquire

    def __exit__(self, *a) -> None:
        self.release()


# --------------------------------------------------------------------------
# Minimisation helpers
# --------------------------------------------------------------------------

def ddmin_list(items: list, test, budget: list[int]) -> list:
    """Classic ddmin over a list; ``test(candidate) -> bool`` (True = still
    fails).  ``budget`` is a one-element list decremented per test."""
    n = 2
    items = list(items)
    while len(items) >= 1 and budget[0] > 0:
        chunk = max(1, len(items) // n)
        reduced = False
        i = 0
        while i < len(items) and budget[0] > 0:
            cand = items[:i] + items[i + chunk:]
            budget[0] -= 1
            if test(cand):
                items = cand
                n = max(n - 1, 2)
                reduced = True
            else:
                i += chunk
        if not reduced:
            if chunk == 1:
                break
            n = min(len(items), n * 2)
    return items


def canonical(obj) -> str:
    return json.dumps(obj, sort_keys=True, separators=(",", ":"),
                      ensure_ascii=True, default=str)


def short_hash(obj) -> str:
    return hashlib.sha256(canonical(obj).encode()).hexdigest()[:16]
