"""The environment seam: everything a template calls out to is owned by the
simulator.  ``Probe`` is the one callable bound in generated templates;
each call is logged and then returns a chosen value or raises a chosen
exception, per the fault plan, keyed by *dynamic* invocation index.
"""
from __future__ import annotations


# -- exception zoo -------------------------------------------------------------

class E1(Exception):
    """Custom exception whose constructor takes more than it passes on."""

    def __init__(self, a, b="extra"):
        super().__init__(a)
        self.b = b


class E2(Exception):
    """Custom exception overriding __str__."""

    def __str__(self):
        return "E2<%s>" % (self.args,)


class E3(Exception):
    """__slots__ and a constructor with two required arguments."""
    __slots__ = ("a", "b")

    def __init__(self, a, b):
        super().__init__(a, b)
        self.a = a
        self.b = b


class E4(KeyError):
    """A lookup-type exception with its own __str__."""

    def __str__(self):
        return "E4!"


class E5(OSError, ValueError):
    """Two builtin bases (a ValueError, so a pipe moves on)."""


class E6(Exception):
    """Keyword-only constructor, custom __reduce__, extra attribute."""

    def __init__(self, *, code):
        super().__init__(code)
        self.code = code

    def __reduce__(self):
        return (E6, (), {"code": self.code})


class E7(Exception):
    """An immutable value object: attribute assignment is refused."""

    def __init__(self, code, detail):
        super().__init__(code, detail)
        object.__setattr__(self, "code", code)
        object.__setattr__(self, "detail", detail)

    def __setattr__(self, name, value):
        raise AttributeError("E7 is immutable")


class Abort(BaseException):
    """Outside the Exception hierarchy."""


def _ude():
    return UnicodeDecodeError("utf-8", b"ab\xffcd", 2, 3, "bad byte")


ZOO = {
    # caught by a pipe (and by exists:, except ValueError)
    "AttributeError": lambda: AttributeError("no-attr"),
    "NameError": lambda: NameError("no-name"),
    "KeyError": lambda: KeyError("no-key"),
    "IndexError": lambda: IndexError("no-index"),
    "LookupError": lambda: LookupError("no-lookup"),
    "TypeError": lambda: TypeError("no-type"),
    "ValueError": lambda: ValueError("no-value", 7),
    "UnicodeDecodeError": _ude,
    "UnboundLocalError": lambda: UnboundLocalError("unbound"),
    # not caught by a pipe
    "Exception": lambda: Exception("plain", 1),
    "ImportError": lambda: ImportError("no-module", name="nomod"),
    "ZeroDivisionError": lambda: ZeroDivisionError("div"),
    "RuntimeError": lambda: RuntimeError("rt", "x"),
    "OSError": lambda: OSError(5, "io-msg"),
    "AssertionError": lambda: AssertionError("assert"),
    "MemoryError": lambda: MemoryError("mem"),
    "StopIteration": lambda: StopIteration("stop"),
    "RecursionError": lambda: RecursionError("too deep"),
    "E1": lambda: E1("e1-a", "e1-b"),
    "E2": lambda: E2("e2-a", 2),
    "E3": lambda: E3("e3-a", 33),
    "E4": lambda: E4("e4-key"),
    "E5": lambda: E5(3, "e5-msg"),
    "E6": lambda: E6(code=7),
    "E7": lambda: E7(404, "e7-detail"),
    "FileNotFoundError": lambda: FileNotFoundError(2, "nf", "some/file"),
    "SyntaxError": lambda: SyntaxError("bad", ("f.py", 1, 2, "txt")),
    # outside Exception
    "KeyboardInterrupt": lambda: KeyboardInterrupt(),
    "SystemExit": lambda: SystemExit(3),
    "GeneratorExit": lambda: GeneratorExit(),
    "Abort": lambda: Abort("abort", 1),
}
ZOO_CLASSES = {
    "AttributeError": AttributeError, "NameError": NameError,
    "KeyError": KeyError, "IndexError": IndexError,
    "LookupError": LookupError, "TypeError": TypeError,
    "ValueError": ValueError, "UnicodeDecodeError": UnicodeDecodeError,
    "Exception": Exception, "UnboundLocalError": UnboundLocalError,
    "ImportError": ImportError,
    "ZeroDivisionError": ZeroDivisionError, "RuntimeError": RuntimeError,
    "OSError": OSError, "AssertionError": AssertionError,
    "MemoryError": MemoryError, "StopIteration": StopIteration,
    "RecursionError": RecursionError, "E1": E1, "E2": E2, "E3": E3,
    "E4": E4, "E5": E5, "E6": E6, "E7": E7,
    "FileNotFoundError": FileNotFoundError,
    "SyntaxError": SyntaxError,
    "KeyboardInterrupt": KeyboardInterrupt, "SystemExit": SystemExit,
    "GeneratorExit": GeneratorExit, "Abort": Abort,
}
PIPE_CAUGHT = (AttributeError, NameError, LookupError, TypeError, ValueError)
EXISTS_CAUGHT = (AttributeError, LookupError, TypeError, NameError)
CAUGHT_NAMES = ["AttributeError", "NameError", "KeyError", "IndexError",
                "LookupError", "TypeError", "ValueError",
                "UnicodeDecodeError", "E4", "E5", "UnboundLocalError"]
UNCAUGHT_NAMES = ["Exception", "ImportError", "ZeroDivisionError", "RuntimeError", "OSError",
                  "AssertionError", "MemoryError", "StopIteration", "E1",
                  "E2", "RecursionError", "E3", "E6", "E7", "FileNotFoundError",
                  "SyntaxError"]
NONEXC_NAMES = ["KeyboardInterrupt", "SystemExit", "GeneratorExit", "Abort"]


# -- values ----------------------------------------------------------------------

class Html:
    def __init__(self, s: str) -> None:
        self.s = s

    def __html__(self) -> str:
        return self.s

    def __eq__(self, other) -> bool:
        return isinstance(other, Html) and other.s == self.s

    def __hash__(self) -> int:
        return hash(self.s)


class OneShot:
    """A one-shot iterator (no len, no restart)."""

    def __init__(self, n: int) -> None:
        self.items = list(range(1, n + 1))

    def __iter__(self):
        return self

    def __next__(self):
        if not self.items:
            raise StopIteration
        return self.items.pop(0)


class BadHtml:
    """An object whose __html__ fails: the failure happens while the
    engine converts an expression's value, not while it evaluates it."""

    def __init__(self, cls: str, sink, site) -> None:
        self.cls, self.sink, self.site = cls, sink, site

    def __html__(self):
        exc = ZOO[self.cls]()
        if self.sink is not None:
            self.sink.append((self.site, "html", exc))
        raise exc


class BadBool:
    """An object whose truth value cannot be taken: the failure happens
    when the engine *tests* an expression's value (tal:condition,
    tal:omit-tag, not:), after the expression - a pipe, say - is done."""

    def __init__(self, cls: str, sink, site) -> None:
        self.cls, self.sink, self.site = cls, sink, site

    def __bool__(self):
        exc = ZOO[self.cls]()
        if self.sink is not None:
            self.sink.append((self.site, "bool", exc))
        raise exc


class BadIter:
    """An iterator that yields n items and then fails in __next__."""

    def __init__(self, n: int, cls: str, sink, site) -> None:
        self.left, self.cls, self.sink, self.site = n, cls, sink, site

    def __iter__(self):
        return self

    def __next__(self):
        if self.left > 0:
            self.left -= 1
            return self.left
        exc = ZOO[self.cls]()
        if self.sink is not None:
            self.sink.append((self.site, "next", exc))
        raise exc


class BadSeq:
    """A *sized* lazy sequence (``__len__`` and ``__getitem__`` only, like
    a catalogue result set) whose item ``n`` cannot be fetched."""

    def __init__(self, n: int, cls: str, sink, site) -> None:
        self.n, self.cls, self.sink, self.site = n, cls, sink, site

    def __len__(self) -> int:
        return self.n + 2

    def __getitem__(self, i: int):
        if not 0 <= i < self.n + 2:
            raise IndexError(i)
        if i == self.n:
            exc = ZOO[self.cls]()
            if self.sink is not None:
                self.sink.append((self.site, "item", exc))
            raise exc
        return i


_DEFAULT = [None]


def default_marker():
    if _DEFAULT[0] is None:
        from chameleon.tales import DEFAULT_MARKER
        _DEFAULT[0] = DEFAULT_MARKER
    return _DEFAULT[0]


def make_value(spec: dict, sink=None, site=None):
    v = spec["v"]
    if v == "badhtml":
        return BadHtml(spec["cls"], sink, site)
    if v == "badbool":
        return BadBool(spec["cls"], sink, site)
    if v == "baditer":
        return BadIter(spec["n"], spec["cls"], sink, site)
    if v == "badseq":
        return BadSeq(spec["n"], spec["cls"], sink, site)
    if v == "none":
        return None
    if v == "str":
        return spec["s"]
    if v == "int":
        return spec["i"]
    if v == "true":
        return True
    if v == "false":
        return False
    if v == "default":
        return default_marker()
    if v == "list":
        return list(range(1, spec["n"] + 1))
    if v == "iter":
        return OneShot(spec["n"])
    if v == "html":
        return Html(spec["s"])
    if v == "dict":
        return dict(spec["d"])
    raise ValueError(spec)


_PLACEHOLDER = __import__("re").compile(r"\$\{([A-Za-z_][A-Za-z0-9_]*)\}")


def tcall_record(msgid, mapping, domain=None, context=None) -> list:
    """What a translation function is handed, made comparable: the message
    id (whitespace collapsed) and the mapping entries of the names that
    occur in it as ${name}."""
    mid = _tnorm(msgid)
    names = sorted(set(_PLACEHOLDER.findall(mid)))
    mp = [[k, _tnorm((mapping or {}).get(k, "<absent>"))] for k in names]
    return [mid, mp, domain, context]


_TTAG = __import__("re").compile(r"(<[^>]*>)")


def _tnorm(v) -> str:
    # (generated text has no whitespace outside tags: what there is comes
    # from the source layout / tal:repeat separators - as in norm_out)
    parts = _TTAG.split(str(v))
    for i in range(0, len(parts), 2):
        parts[i] = "".join(parts[i].split())
    return "".join(parts)


class Probe:
    """``P(k)`` inside templates."""

    def __init__(self, sites: dict, plan: list, shared=None) -> None:
        # shared: class name -> exception instance raised by plan entries
        # marked "shared" (a module-level sentinel, a memoised failure:
        # the very same object raised again in a later render)
        self.shared = shared
        self.sites = sites            # str(k) -> default value spec
        self.plan = {}
        for f in plan:
            self.plan[(f["site"], f.get("n", "*"))] = f["do"]
        self.count: dict[int, int] = {}
        self.history: list[int] = []
        self.raised: list = []        # (site, n, exception object)
        self.tcalls: list = []        # what the translation function saw

    def __call__(self, k: int):
        n = self.count.get(k, 0)
        self.count[k] = n + 1
        self.history.append(k)
        do = self.plan.get((k, n))
        if do is None:
            do = self.plan.get((k, "*"))
        if do is None:
            return make_value(self.sites[str(k)], self.raised, k)
        if do[0] == "raise":
            if len(do) > 2 and do[2] == "shared" and self.shared is not None:
                exc = self.shared.get(do[1])
                if exc is None:
                    exc = self.shared[do[1]] = ZOO[do[1]]()
            else:
                exc = ZOO[do[1]]()
            self.raised.append((k, n, exc))
            raise exc
        return make_value(do[1], self.raised, k)

    def translate(self, msgid, domain=None, mapping=None, context=None,
                  target_language=None, default=None):
        """The translation function handed to render(): behaves like
        chameleon's default one, logs the call as 'T' and can be told to
        fail at its n-th call."""
        n = self.count.get("T", 0)
        self.count["T"] = n + 1
        self.history.append("T")
        self.tcalls.append(tcall_record(msgid, mapping, domain, context))
        do = self.plan.get(("T", n)) or self.plan.get(("T", "*"))
        if do is not None and do[0] == "raise":
            exc = ZOO[do[1]]()
            self.raised.append(("T", n, exc))
            raise exc
        from chameleon.i18n import simple_translate
        return simple_translate(msgid, domain=domain, mapping=mapping,
                                context=context,
                                target_language=target_language,
                                default=default)


class Handler:
    """Recording on_error_handler."""

    def __init__(self, fail_with: str | None = None) -> None:
        self.calls: list = []
        self.fail_with = fail_with

    def __call__(self, exc) -> None:
        self.calls.append((type(exc).__name__, _args(exc)))
        if self.fail_with:
            raise ZOO[self.fail_with]()


_NOT_STATE = {"args", "with_traceback", "add_note"}


def exc_state(e: BaseException) -> dict:
    """What an exception object carries besides args: errno / strerror /
    filename, value, code, object / start / end / reason, msg / lineno /
    offset / text, slot and instance attributes of custom classes."""
    out = {}
    for name in dir(e):
        if name.startswith("_") or name in _NOT_STATE:
            continue
        try:
            v = getattr(e, name)
        except Exception:       # noqa: BLE001
            continue
        if callable(v):
            continue
        out[name] = v if isinstance(v, (int, str, bytes, type(None),
                                        tuple)) else repr(v)
    return out


def _args(e: BaseException):
    out = []
    for a in e.args:
        out.append(a if isinstance(a, (int, str, bytes, type(None)))
                   else repr(a))
    return out
