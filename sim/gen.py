"""Seeded template-tree generator and serialiser.

A template is generated as a *tree* (plain JSON), never as a string, so the
reference interpreter (model.py) can walk the same structure.  Every
expression is built from probes ``P(k)``; the serialiser records where each
expression occurrence stands in the source.

Tree:
  node  := {"t": "text", "parts": [part...]} | element
  part  := ["lit", "abc"] | ["expr", E] | ["sexpr", E]      (${E} / ${structure: E})
  element := {"t": "el", "tag": str, "talns": bool, "static": [[name, parts]...],
              "define": [[scope, name, E]...], "condition": E?, "repeat": [name, E]?,
              "switch": E?, "case": E?, "content": [mode, E]?, "replace": [mode, E]?,
              "omit": None | "" | E, "attributes": [[name, E]...],
              "on_error": [mode, E]?, "children": [node...], "order": [stmt names]}
  E := {"k": "P", "id": n} | {"k": "pipe", "alts": [E...]} | {"k": "not", "e": E}
     | {"k": "exists", "e": E} | {"k": "string", "parts": [part...]}
     | {"k": "python", "e": E} | {"k": "lit", "src": str}
     | {"k": "errinfo"}                      (string:${error.type.__name__})
"""
from __future__ import annotations

from .core import Choices
from .env import CAUGHT_NAMES, NONEXC_NAMES, UNCAUGHT_NAMES

PYFORMS = {
    "lambda_star": "(lambda *a: %s)()",
    "lambda_kw": "(lambda **kw: %s)()",
    "lambda_kwonly": "(lambda *, n=1: %s)()",
    "lambda_pos": "(lambda a, /, n=2: %s)(0)",
    "listcomp": "[%s for z in (1,)][0]",
    # comprehensions whose outermost iterable is the template variable that
    # has the loop variable's name (it is evaluated outside the
    # comprehension's own scope)
    "listcomp_self": "[(a, %s)[1] for a in a][0]",
    "genexp_self": "(sorted(n for n in (n,)) and %s)",
    "dictcomp_self": "{kw: %s for kw in (kw,)}[kw]",
    "setcomp_self": "({a for a in a} and %s)",
    "uses_a": "(a, %s)[1]",
    "uses_kw": "(kw, %s)[1]",
    "uses_n": "(n, %s)[1]",
    # attribute access on a plain dict whose keys shadow dict methods
    # (attribute first) and item fallback for a missing attribute
    "dict_method": "(dd.get('nokey') or %s)",
    "dict_item": "(dd.x and %s)",
    # a *called* dotted name whose last part is only reachable by item
    # lookup: on a dict and on an object that offers __getitem__ only
    "dict_call": "dd.ident(%s)",
    "dict_call_kw": "dd.ident(v=%s)",
    "item_only": "(io.x and %s)",
    "item_only_call": "io.ident(%s)",
    # an escaped semicolon inside the expression's own part (it is only an
    # escape in tal:define / tal:attributes lists; elsewhere a plain string)
    "semi": "(';;' and %s)",
    # string literals with an escaped quote of their own kind (a later
    # pipe alternative or following text brings further quotes)
    "esc_quote": "(%s, 'it\\'s')[0]",
    "esc_quote2": "('a\\'b' and %s)",
    # an expression continued over two lines (what follows it in the
    # source stands on a later line than a count of tokens would say)
    "multiline": "(%s,\n 0)[0]",
    "multiline2": "(0,\n\n  %s)[1]",
    # attribute access on an object that has no such attribute and whose
    # __getitem__ fails with something that is *not* a lookup error: the
    # expression raises RuntimeError('bad-item') before the probe is reached
    # (only generated where the option raising_forms asks for it)
    "bad_item": "(bad.attr, %s)[1]",
    # one class, three instances: the first has the name as an item only,
    # the second as an attribute *and* an item - attribute first, whatever
    # an earlier instance of the class was answered from
    "attr_per_instance": "((qrec0.title, qrec1.title) == ('i0', 'a1') and %s)",
    # an object that offers __getitem__ at instance level only (a wrapper
    # whose __getattr__ hands on to what it wraps)
    "instance_getitem": "(qproxy.title == 'pt' and %s)",
    "attr_per_instance2": "((qrec0.title, qrec1.title, qrec0.title) == "
                          "('i0', 'a1', 'i0') and %s)",
}
RAISING_FORMS = {"bad_item": (RuntimeError, ("bad-item",))}
# bare names under exists: (name -> does evaluating it succeed?)
BARE_NAMES = ["nothing", "template", "macros", "a", "kw", "len", "dd",
              "nosuch_name", "nosuch2"]
BARE_NAME_EXISTS = {"nothing": 1, "template": 1, "macros": 1, "a": 1,
                    "kw": 1, "len": 1, "dd": 1, "nosuch_name": 0,
                    "nosuch2": 0}


def _ident(v):
    return v


class ItemOnly:
    """Offers its members through __getitem__ only."""
    __slots__ = ("_d",)

    def __init__(self, d):
        self._d = d

    def __getitem__(self, key):
        return self._d[key]


class Rec:
    """Instances of one class that differ in what they offer under a name:
    an instance attribute, an item, both."""

    def __init__(self, items, **attrs):
        self._items = items
        self.__dict__.update(attrs)

    def __getitem__(self, key):
        return self._items[key]


class Proxy:
    """Hands every attribute it has not got on to the mapping it wraps -
    ``__getitem__`` included."""

    def __init__(self, wrapped):
        self._wrapped = wrapped

    def __getattr__(self, name):
        if name in ("_wrapped", "title", "__html__"):
            raise AttributeError(name)
        return getattr(self._wrapped, name)


class _Gone:
    pass


class BadItem:
    """No attributes to speak of, and item access fails - not with a
    lookup error."""

    def __getitem__(self, key):
        raise RuntimeError("bad-item")


def _dead_proxy():
    import weakref
    o = _Gone()
    p = weakref.proxy(o)
    del o
    return p


# (zbig / zdead are never used by a template: they are render arguments
# that an error message cannot show - an integer beyond the int -> str
# conversion limit, a weak reference proxy whose referent is gone)
RENDER_ARGS = {"zbig": 10 ** 5000, "zdead": _dead_proxy(), "bad": BadItem(),
               "a": "A", "kw": "K", "n": "N",
               "dd": {"get": "G", "keys": "K", "items": "I", "x": 1,
                      "ident": _ident},
               "io": ItemOnly({"x": 1, "ident": _ident}),
               "qproxy": Proxy({"title": "pt"}),
               "qrec0": Rec({"title": "i0"}),
               "qrec1": Rec({"title": "i1"}, title="a1")}

TAGS = ["div", "span", "p", "b", "ul", "li", "section", "em"]


class Gen:
    def __init__(self, ch: Choices, opts: dict | None = None) -> None:
        self.ch = ch
        self.o = {"max_depth": 3, "max_sites": 22, "on_error": 0.3,
                  "switch": 0.12, "pipes": 0.3, "prefixes": 0.25,
                  "macros": 0.0, "pyforms": 0.0, "i18n": 0.0,
                  "entities": 0.0, "code": 0.0, "mutlit": 0.0,
                  "markers": 0.0, "attr_default_interp": 0.0}
        self.o.update(opts or {})
        self.nsite = 0
        self.sites: dict[str, dict] = {}     # str(k) -> default value spec
        self.roles: dict[str, str] = {}
        self.nvar = 0
        self.neid = 0
        self.noid = 0
        self.twins: list[dict] = []       # prefixed expressions to repeat
        # in some templates every fallback reads ``error`` (type, value,
        # line, column): each handled failure's position is then checked
        self.errinfo_all = bool(self.o.get("errinfo_all")) and \
            self.ch.coin(self.o["errinfo_all"])
        self.nmacro = 0
        self.nslot = 0
        self.nmark = 0
        self.macro_stack: list[dict] = []     # macros being generated
        self.complete_macros: list[dict] = []  # {"name", "slots"}
        self.in_fill = 0
        self.in_translate = 0
        self.cur_file = None          # multi-file sets: name of the file

    # -- expressions -------------------------------------------------------------
    def value_for(self, role: str) -> dict:
        ch = self.ch
        if role == "cond":
            return ch.weighted([(6, {"v": "true"}), (2, {"v": "false"}),
                                (1, {"v": "str", "s": "x"}),
                                (1, {"v": "none"}), (1, {"v": "int", "i": 0}),
                                (1, {"v": "list", "n": 0})])
        if role in ("cond", "omit") and self.o.get("badvalues") and \
                ch.coin(0.1):
            return {"v": "badbool",
                    "cls": ch.pick(UNCAUGHT_NAMES + CAUGHT_NAMES)}
        if role == "repeat" and self.o.get("badvalues") and ch.coin(0.12):
            return {"v": ch.pick(["baditer", "badseq"]), "n": ch.choose(3),
                    "cls": ch.pick(UNCAUGHT_NAMES + CAUGHT_NAMES)}
        if role in ("content", "replace", "attr", "interp", "part",
                    "define") and self.o.get("badvalues") and ch.coin(0.08):
            return {"v": "badhtml",
                    "cls": ch.pick(UNCAUGHT_NAMES + CAUGHT_NAMES)}
        if role == "repeat":
            return ch.weighted([(5, {"v": "list", "n": 2}),
                                (2, {"v": "list", "n": 1}),
                                (1, {"v": "list", "n": 0}),
                                (1, {"v": "none"}), (1, {"v": "iter", "n": 2}),
                                (1, {"v": "list", "n": 3})])
        if role in ("content", "replace"):
            return ch.weighted([
                (5, {"v": "str", "s": ch.pick(["v", "a<b/>c", "x&y", "q\"r", "<i>t</i>"])}),
                (1, {"v": "int", "i": 7}), (1, {"v": "none"}),
                (1, {"v": "default"}), (1, {"v": "html", "s": "<u>h</u>"}),
                (1, {"v": "true"})])
        if role == "attr":
            return ch.weighted([
                (5, {"v": "str", "s": ch.pick(["v", "a<b/>c", "x&y", "q\"r"])}),
                (1, {"v": "int", "i": 7}), (2, {"v": "none"}),
                (1, {"v": "default"}), (1, {"v": "false"})])
        if role == "omit":
            return ch.weighted([(1, {"v": "true"}), (1, {"v": "false"})])
        if role in ("switch", "case"):
            return ch.weighted([(3, {"v": "int", "i": 1}),
                                (2, {"v": "int", "i": 2}),
                                (1, {"v": "str", "s": "k"})])
        if role == "sinterp":
            return {"v": "str", "s": ch.pick(["<i>s</i>", "s&amp;", "w"])}
        if role == "fallback":
            return ch.weighted([(4, {"v": "str", "s": ch.pick(["fb", "f<b/>g"])}),
                                (1, {"v": "none"}), (1, {"v": "int", "i": 3})])
        # define / interp / string part
        return ch.weighted([
            (5, {"v": "str", "s": ch.pick(["v", "a<b/>c", "x&y", "w"])}),
            (1, {"v": "int", "i": 7}), (1, {"v": "none"}),
            (1, {"v": "html", "s": "<u>h</u>"})])

    def probe(self, role: str, plain: bool = False) -> dict:
        k = self.nsite
        self.nsite += 1
        self.sites[str(k)] = self.value_for(role)
        self.roles[str(k)] = role
        self.noid += 1
        p = {"k": "P", "id": k, "oid": self.noid}
        if not plain and self.o["pyforms"] and \
                self.ch.coin(self.o["pyforms"]):
            # python sub-grammar around the probe: lambdas with star /
            # keyword-only parameters, a comprehension, and uses of render
            # arguments that carry the same names (a, kw, n)
            forms = [f for f in sorted(PYFORMS) if f not in RAISING_FORMS]
            if self.o.get("raising_forms") and \
                    self.ch.coin(self.o["raising_forms"]):
                forms = sorted(RAISING_FORMS)
            return {"k": "pyform", "form": self.ch.pick(forms), "e": p}
        return p

    def _retwin(self, e: dict) -> dict:
        """A copy of e: the same text (same probe ids), new occurrence ids."""
        import copy as _copy
        c = _copy.deepcopy(e)

        def walk(x):
            if isinstance(x, dict):
                if x.get("k") == "P":
                    self.noid += 1
                    x["oid"] = self.noid
                for v in x.values():
                    walk(v)
            elif isinstance(x, list):
                for v in x:
                    walk(v)
        walk(c)
        return c

    def expr(self, role: str, allow_prefix: bool = True) -> dict:
        ch = self.ch
        if self.o.get("twins") and allow_prefix and self.twins and \
                ch.coin(self.o["twins"] * (3 if role in (
                    "omit", "switch") else 1)):
            cand = [t for t in self.twins if t[0] == role]
            if cand:
                # the same expression text at a second position
                return self._retwin(ch.pick(cand)[1])
        e = self._expr(role, allow_prefix)
        # (guards whose value is kept in a variable of the generated code:
        # also the bare form, so that two guards nested in one another are
        # spelled alike and - by the plan - differ in value)
        if self.o.get("twins") and (e["k"] in ("not", "exists", "string",
                                               "python") or
                                    (role in ("omit", "switch") and
                                     e["k"] in ("P", "pyform"))):
            self.twins.append((role, e))
        return e

    def _expr(self, role: str, allow_prefix: bool = True) -> dict:
        ch = self.ch
        r = ch._r.random()
        ch.n += 1
        if r < self.o["pipes"]:
            n = 2 + ch.choose(3)
            alts = [self.probe(role) for _ in range(n)]
            t = ch.choose(6)
            if t == 0:
                alts[-1] = {"k": "lit", "src": "'lit'"}
                if self.o["entities"] and ch.coin(0.5):
                    alts[-1] = {"k": "lit", "src": "'&lt;x&amp;'"}
            elif t == 1 and role in ("content", "replace", "attr"):
                alts[-1] = {"k": "lit", "src": "default"}
            elif t == 2:
                alts[-1] = {"k": "lit", "src": "nothing"}
            elif t == 3 and allow_prefix and role not in ("repeat",):
                alts[-1] = {"k": "string", "parts": [["lit", "s"],
                                                     ["expr", self.probe("part")]]}
            elif t == 4 and allow_prefix and role in ("cond", "omit",
                                                      "define"):
                # a type prefix on a later alternative takes the rest of
                # the pipe with it: a | not: b | c  ==  a | not:(b | c)
                inner = {"k": "pipe", "alts": [self.probe(role, True),
                                               self.probe(role, True)]} \
                    if ch.coin(0.6) else self.probe(role, True)
                alts[-1] = {"k": ch.pick(["not", "exists"]), "e": inner}
                if alts[-1]["k"] == "exists" and self.o.get("bare_names") \
                        and ch.coin(self.o["bare_names"]):
                    alts[-1]["e"] = {"k": "name", "name": ch.pick(BARE_NAMES)}
            return {"k": "pipe", "alts": alts}
        if allow_prefix and r < self.o["pipes"] + self.o["prefixes"]:
            t = ch.choose(5)
            if t == 0 and role in ("cond", "omit", "define"):
                return {"k": "not", "e": self.expr(role, False)}
            if t == 1 and role in ("cond", "omit", "define"):
                inner = self.probe(role) if ch.coin(0.6) else \
                    {"k": "pipe", "alts": [self.probe(role), self.probe(role)]}
                if self.o.get("bare_names") and ch.coin(self.o["bare_names"]):
                    # exists: over one bare name - a template builtin, a
                    # render argument, a python builtin, an unknown name
                    inner = {"k": "name", "name": ch.pick(BARE_NAMES)}
                return {"k": "exists", "e": inner}
            if t == 2 and role in ("content", "replace", "attr", "define",
                                   "fallback"):
                parts = [["lit", "s"]]
                for _ in range(1 + ch.choose(2)):
                    parts.append(["expr", self.probe("part")])
                    if ch.coin(0.5):
                        parts.append(["lit", "-"])
                if ch.coin(0.15):
                    parts = [["expr", self.probe("part")]]
                self._repeat_part(parts)
                return {"k": "string", "parts": parts}
            if t == 3:
                return {"k": "python", "e": self.probe(role)}
        return self.probe(role)

    # -- nodes ---------------------------------------------------------------------
    def text(self) -> dict:
        ch = self.ch
        parts = []
        for _ in range(1 + ch.choose(3)):
            t = ch.choose(10)
            if t < 5:
                parts.append(["lit", ch.pick(["t", "abc", "&amp;", "x", "uv"])
                              + str(ch.choose(10))])
            elif t < 9:
                if ch.coin(0.25):
                    e = {"k": "pipe", "alts": [self.probe("interp"),
                                               self.probe("interp")]}
                else:
                    e = self.probe("interp")
                parts.append(["expr", e])
            else:
                parts.append(["sexpr", self.probe("sinterp")])
        self._repeat_part(parts)
        if self.o["markers"] and not self.macro_stack and not self.in_fill \
                and not self.in_translate and ch.coin(0.35):
            parts.append(["var", ch.pick(["w0", "w1", "g0", "g1"])])
            if ch.coin(0.3):
                # on-error's variable is there for the fallback only
                parts.append(["errvar"])
        return {"t": "text", "parts": parts}

    def _repeat_part(self, parts: list) -> None:
        """Sometimes the same ${...} text stands twice in one interpolated
        string: each occurrence is an evaluation of its own."""
        exprs = [p for p in parts if p[0] == "expr"]
        if exprs and self.ch.coin(0.12):
            p = self.ch.pick(exprs)
            parts.append(["lit", "~"])
            parts.append(["expr", self._retwin(p[1])])

    def new_el(self) -> dict:
        ch = self.ch
        self.neid += 1
        return {"t": "el", "eid": self.neid, "tag": ch.pick(TAGS),
                "talns": ch.coin(0.08),
                "static": [], "define": [], "condition": None, "repeat": None,
                "switch": None, "case": None, "content": None,
                "replace": None, "omit": None, "attributes": [],
                "on_error": None, "define_macro": None, "use_macro": None,
                "define_slot": None, "fill_slot": None, "translate": None,
                "i18n_name": None, "children": []}

    def use_macro_element(self, depth: int, other_file: bool = False) -> dict:
        """<x metal:use-macro="template.macros['m']"> with fill-slots."""
        ch = self.ch
        el = self.new_el()
        pool = self.complete_macros
        if other_file:
            pool = [m for m in pool if m.get("file") != self.cur_file] or pool
        macro = ch.pick(pool)
        el["use_macro"] = macro["name"]
        # 'nomacro | python: <macro>': the first alternative fails (no such
        # name) and the prefixed second one is a nested expression
        el["use_pipe"] = ch.coin(0.3)
        if macro.get("file") != self.cur_file:
            # a macro of another file: reached through load:
            self.nvar += 1
            el["use_file"] = macro["file"]
            el["use_var"] = "lib%d" % self.nvar
            el["define"].append(["", el["use_var"],
                                 {"k": "load", "file": macro["file"]}])
        if ch.coin(0.3):
            self.nvar += 1
            el["define"].append(["", "v%d" % self.nvar, self.expr("define")])
        if ch.coin(0.2):
            el["condition"] = self.expr("cond")
        if ch.coin(0.15):
            self.nvar += 1
            el["repeat"] = ["r%d" % self.nvar, self.expr("repeat")]
        if ch.coin(self.o["on_error"]):
            el["on_error"] = ["", {"k": "string", "parts": [
                ["lit", "err%d" % self.nsite]]}]
        for slot in macro["slots"]:
            if ch.coin(0.75):
                self.in_fill += 1
                f = self.element(depth + 1, fill_slot=slot)
                self.in_fill -= 1
                el["children"].append(f)
        if ch.coin(0.3):
            el["children"].append({"t": "text", "parts": [["lit", "ign"]]})
        stmts = [x for x in ("define", "condition", "repeat", "on_error")
                 if el[x] not in (None, [])] + ["use_macro"]
        el["order"] = ch.shuffle(stmts)
        return el

    def element(self, depth: int, in_switch: bool = False,
                fill_slot: str | None = None, name_in: bool = False) -> dict:
        ch = self.ch
        o = self.o
        if o["macros"] and not in_switch and fill_slot is None and \
                self.complete_macros and ch.coin(0.3):
            return self.use_macro_element(depth)
        el = self.new_el()
        el["fill_slot"] = fill_slot
        budget_left = self.nsite < o["max_sites"]
        is_macro = False
        if o["macros"] and not in_switch and fill_slot is None and \
                depth < o["max_depth"] and ch.coin(o["macros"]):
            self.nmacro += 1
            el["define_macro"] = "m%d" % self.nmacro
            self.macro_stack.append({"name": el["define_macro"], "slots": [],
                                     "file": self.cur_file})
            is_macro = True
        elif o["macros"] and self.macro_stack and not self.in_fill and \
                not in_switch and fill_slot is None and ch.coin(0.45):
            self.nslot += 1
            el["define_slot"] = "s%d" % self.nslot
            self.macro_stack[-1]["slots"].append(el["define_slot"])
        if in_switch:
            t = ch.choose(8)
            if t == 0:
                el["case"] = {"k": "lit", "src": "default"}
            else:
                el["case"] = self.probe("case")
        if not el["talns"]:
            for i in range(ch.choose(3)):
                el["static"].append(["s%d" % i, [["lit", ch.pick(
                    ["v", "a b", "&amp;c"]) + str(i)]]])
        if budget_left and ch.coin(0.3):
            if o["entities"] and ch.coin(o["entities"]):
                # an entity / an escaped semicolon in an earlier part
                self.nvar += 1
                el["define"].append(["", "v%d" % self.nvar, {
                    "k": "lit", "src": ch.pick(["'&lt;'", "'a;;b'",
                                                "'&amp;&gt;'", "'&#60;'"])}])
            for _ in range(1 + ch.choose(2)):
                self.nvar += 1
                el["define"].append([ch.pick(["local", "local", "global", ""]),
                                     "v%d" % self.nvar, self.expr("define")])
        if o["markers"] and not self.macro_stack and not self.in_fill and \
                not is_macro and fill_slot is None and ch.coin(o["markers"]):
            # a marker variable: literal value, few names (so that inner
            # definitions shadow outer ones), read back by later text
            self.nmark += 1
            glob = ch.coin(0.2)
            d = ["global" if glob else ch.pick(["", "local"]),
                 ("g%d" if glob else "w%d") % ch.choose(2),
                 {"k": "marker", "s": "k%d" % self.nmark}]
            el["define"].insert(ch.choose(len(el["define"]) + 1), d)
        if budget_left and not in_switch and ch.coin(0.25):
            el["condition"] = self.expr("cond")
        if budget_left and not in_switch and ch.coin(0.2):
            self.nvar += 1
            el["repeat"] = ["r%d" % self.nvar, self.expr("repeat")]
        is_switch = False
        if budget_left and depth < o["max_depth"] and not in_switch and \
                not el["condition"] and not el["repeat"] and \
                ch.coin(o["switch"]):
            el["switch"] = self.probe("switch")
            is_switch = True
        if budget_left and not is_switch:
            t = ch.choose(10)
            if t < 3:
                el["content"] = [ch.pick(["text", "text", "structure", ""]),
                                 self.expr("content")]
            elif t < 4:
                el["replace"] = [ch.pick(["text", "structure", ""]),
                                 self.expr("replace")]
        has_on_error = budget_left and ch.coin(o["on_error"])
        if budget_left and not el["talns"]:
            t = ch.choose(10)
            if t == 0:
                el["omit"] = ""
            elif t == 1:
                # (together with on-error this is a grey zone: the fallback
                # then has no tags, whatever the guard's value - model.py)
                el["omit"] = self.expr("omit")
        if budget_left and not el["talns"] and el["omit"] != "" and \
                ch.coin(0.3):
            if o["entities"] and ch.coin(o["entities"]):
                el["attributes"].append(["e0", {"k": "lit", "src": ch.pick(
                    ["'&lt;'", "'a;;b'", "'&amp;x'"])}])
            for i in range(1 + ch.choose(2)):
                el["attributes"].append(["d%d" % i, self.expr("attr")])
            if el["static"] and ch.coin(0.3):
                # override the *last* static attribute (keeps clause order
                # and output order the same)
                el["attributes"].append([el["static"][-1][0],
                                         self.expr("attr")])
        if el["static"] and ch.coin(0.2) and budget_left:
            name, parts = el["static"][ch.choose(len(el["static"]))]
            if not any(a[0] == name for a in el["attributes"]) or \
                    (o.get("attr_default_interp") and
                     ch.coin(o["attr_default_interp"])):
                # (an interpolated static attribute that tal:attributes
                # overrides: its ${} is the attribute's default value)
                parts.append(["expr", self.probe("interp")])
        if has_on_error:
            t = ch.choose(6)
            if self.errinfo_all and ch.coin(0.8):
                t = 5
            if t < 3:
                fe = {"k": "string", "parts": [["lit", "err%d" % self.nsite]]}
                mode = ""
            elif t == 3:
                fe = {"k": "lit", "src": "nothing"}
                mode = ""
            elif t == 4:
                fe = self.probe("fallback")
                mode = ch.pick(["", "structure", "text"])
            else:
                fe = {"k": "errinfo"}
                mode = ""
            el["on_error"] = [mode, fe]
        # a mutable literal: tal:define="Lk []" here, and a text child that
        # appends to it and shows its length - a literal expression is
        # evaluated anew at every reach, so the count restarts
        if o["mutlit"] and not is_switch and not el["content"] and \
                not el["replace"] and not in_switch and fill_slot is None \
                and ch.coin(o["mutlit"]):
            self.nvar += 1
            name = "L%d" % self.nvar
            el["define"].append(["", name, {"k": "lit", "src": ch.pick(
                ["[]", "[0][:0]", "list()"])}])
            el["children"].append({"t": "text", "parts": [
                ["lit", "n"], ["count", name]]})
            if "define" not in [x for x in ("define",) if el["define"]]:
                pass
        # i18n:translate="" block (message id computed from the content)
        is_tr = False
        if o["i18n"] and not is_switch and not el["content"] and \
                not el["replace"] and depth < o["max_depth"] and \
                ch.coin(o["i18n"]):
            el["translate"] = True
            is_tr = True
        if o["i18n"] and not self.in_fill and fill_slot is None and \
                ch.coin(0.5 * o["i18n"]):
            # the translation domain / context of everything inside
            # (not in slot content: there the conversion helpers are
            # closures of the defining function and read *its* settings,
            # an i18n matter - observation O9)
            self.nvar += 1
            el[ch.pick(["i18n_domain", "i18n_context"])] = \
                "d%d" % self.nvar
        if name_in and not in_switch and fill_slot is None and \
                not el["define_macro"] and ch.coin(0.6):
            self.nvar += 1
            el["i18n_name"] = "n%d" % self.nvar
        # children
        if is_tr:
            self.in_translate += 1
        if depth < o["max_depth"]:
            n = ch.choose(4) if not is_switch else 1 + ch.choose(3)
            for _ in range(n):
                if self.nsite >= o["max_sites"] and not is_switch:
                    el["children"].append({"t": "text", "parts": [
                        ["lit", "t%d" % ch.choose(10)]]})
                    continue
                if is_switch or ch.coin(0.6):
                    el["children"].append(self.element(
                        depth + 1, is_switch, name_in=is_tr))
                elif o["code"] and ch.coin(o["code"]):
                    # <?python P(k) ?> : a code block calling the probe
                    # (plain call: code blocks are ordinary Python, the
                    # attribute -> item fallback does not apply there)
                    el["children"].append({"t": "code",
                                           "e": self.probe("define", True)})
                else:
                    el["children"].append(self.text())
        elif not is_switch:
            el["children"].append(self.text())
        if is_tr:
            self.in_translate -= 1
        stmts = [s for s in ("define", "condition", "repeat", "switch", "case",
                             "content", "replace", "omit", "attributes",
                             "on_error", "define_macro", "define_slot",
                             "fill_slot", "translate", "i18n_name",
                             "i18n_domain", "i18n_context")
                 if el.get(s) not in (None, [])]
        el["order"] = ch.shuffle(stmts)
        if is_macro:
            self.complete_macros.append(self.macro_stack.pop())
        if o.get("selfclose") and not el["talns"] and all(
                el.get(k) in (None, [])
                for k in ("content", "replace", "switch", "define_macro",
                          "define_slot", "fill_slot", "translate",
                          "i18n_name", "use_macro")) and \
                all(c["t"] == "text" and all(p[0] == "lit" for p in c["parts"])
                    for c in el["children"]) and ch.coin(o["selfclose"]):
            # <br ... /> : an element written without an end tag (what can
            # fail in it are its own statements; its fallback has both tags)
            el["children"] = []
            el["selfclose"] = True
        return el

    def template_set(self, nlibs: int) -> dict:
        """Several files: libraries of macros, and a main template that
        uses them through load: (libraries may use earlier libraries)."""
        files = {}
        per_file = max(8, self.o["max_sites"] // (nlibs + 1))
        for i in range(nlibs):
            self.cur_file = "lib%d.pt" % i
            self.o["max_sites"] = self.nsite + per_file
            tree = self.template()["tree"]
            if i and self.complete_macros and self.ch.coin(0.6):
                # a library that itself uses an earlier library
                self.macro_stack.append({"name": "m%d" % (self.nmacro + 1),
                                         "slots": [], "file": self.cur_file})
                self.nmacro += 1
                wrap = self.new_el()
                wrap["define_macro"] = self.macro_stack[-1]["name"]
                wrap["children"] = [self.use_macro_element(2, True),
                                    self.text()]
                wrap["order"] = ["define_macro"]
                self.complete_macros.append(self.macro_stack.pop())
                tree["children"].append(wrap)
            files[self.cur_file] = tree
        self.cur_file = "main.pt"
        self.o["max_sites"] = self.nsite + per_file
        main = self.template()["tree"]
        if self.complete_macros:
            for _ in range(1 + self.ch.choose(2)):
                main["children"].insert(
                    self.ch.choose(len(main["children"]) + 1),
                    self.use_macro_element(1, True))
        files["main.pt"] = main
        return {"files": files, "tree": files["main.pt"],
                "sites": self.sites, "roles": self.roles}

    def template(self) -> dict:
        ch = self.ch
        root = self.new_el()
        root.update({"tag": "html", "talns": False, "order": []})
        for _ in range(1 + ch.choose(4)):
            if ch.coin(0.75):
                root["children"].append(self.element(1))
            else:
                root["children"].append(self.text())
        return {"tree": root, "sites": self.sites, "roles": self.roles}


# -- serialisation -------------------------------------------------------------------

import re as _re

_ENT = _re.compile(r"&#?\w+;")


class Ser:
    """Tree -> source text, recording every expression occurrence."""

    def __init__(self, pretty: bool = False, seps: bool = False,
                 data: bool = False) -> None:
        self.seps = seps                # unusual line separators in text
        # statements spelled as HTML5 data attributes (data-tal-content,
        # data-metal-use-macro, data-i18n-translate): the template is then
        # compiled with enable_data_attributes=True
        self.data = data
        self.mpre = "data-metal-" if data else "metal:"
        self.ipre = "data-i18n-" if data else "i18n:"
        self.buf: list[str] = []
        self.pos = 0
        self.occ: list[dict] = []       # expression occurrences
        self.stack: list[int] = []
        self.pretty = pretty            # newlines / indentation / non-ASCII
        self.depth = 0
        self.nattr = 0
        self.value_start = None     # where the current attribute value began
        self.part_start = None      # ... the current define/attributes part

    def sp(self) -> str:
        """Separator before a statement attribute."""
        if not self.pretty:
            return " "
        self.nattr += 1
        if self.nattr % 2:
            return "\n" + " " * (2 * self.depth + 4)
        return "  " if self.nattr % 3 == 0 else " "

    def w(self, s: str) -> None:
        self.buf.append(s)
        self.pos += len(s)

    def expr(self, e: dict, kind: str) -> None:
        """Write expression e at the current position."""
        start = self.pos
        idx = len(self.occ)
        self.occ.append({"start": start, "kind": kind, "e": e["k"],
                         "parent": self.stack[-1] if self.stack else None,
                         "value_start": self.value_start,
                         "part_start": self.part_start})
        self.stack.append(idx)
        k = e["k"]
        if k == "P":
            self.w("P(%d)" % e["id"])
            self.occ[idx]["probe"] = e["id"]
            self.occ[idx]["oid"] = e.get("oid")
        elif k == "lit":
            self.w(e["src"])
        elif k == "name":
            self.w(e["name"])
        elif k == "marker":
            self.w("'%s'" % e["s"])
        elif k == "load":
            self.w("load: " + e["file"])
        elif k == "pyform":
            pre, post = PYFORMS[e["form"]].split("%s")
            self.w(pre)
            self.expr(e["e"], "arg")
            self.w(post)
        elif k == "pipe":
            for i, a in enumerate(e["alts"]):
                if i:
                    self.w(" | ")
                self.expr(a, "alt")
        elif k == "not":
            self.w("not: ")
            self.expr(e["e"], "arg")
        elif k == "exists":
            self.w("exists: ")
            self.expr(e["e"], "arg")
        elif k == "python":
            self.w("python: ")
            self.expr(e["e"], "arg")
        elif k == "string":
            self.w("string:")
            self.parts(e["parts"], in_string=True)
        elif k == "errinfo":
            # ERR records what the fallback expression can read from the
            # ``error`` variable (type, value, line, column), returns ''
            self.w("string:${error.type.__name__}${ERR(error)}")
        else:
            raise ValueError(k)
        self.stack.pop()
        self.occ[idx]["end"] = self.pos
        self.occ[idx]["text"] = None        # filled in by source()

    def parts(self, parts: list, in_string: bool = False) -> None:
        for p in parts:
            if p[0] == "lit":
                self.w(p[1])
            elif p[0] == "expr":
                self.w("${")
                self.expr(p[1], "interp")
                self.w("}")
            elif p[0] == "count":
                self.w("${(%s.append(1), len(%s))[1]}" % (p[1], p[1]))
            elif p[0] == "var":
                self.w("${%s | 'unset'}" % p[1])
            elif p[0] == "errvar":
                self.w("${error.type.__name__ | 'noerr'}")
            else:
                self.w("${structure: ")
                self.expr(p[1], "interp")
                self.w("}")

    def node(self, n: dict) -> None:
        if n["t"] == "text":
            self.parts(n["parts"])
            return
        if n["t"] == "code":
            self.w("<?python")
            start = self.pos
            idx = len(self.occ)
            self.occ.append({"start": start, "kind": "code", "e": "code",
                             "parent": None, "value_start": None})
            self.stack.append(idx)
            self.w(" ")
            self.expr(n["e"], "arg")
            self.w(" ")
            self.stack.pop()
            self.occ[idx]["end"] = self.pos
            self.w("?>")
            return
        tag = ("tal:" if n["talns"] else "") + n["tag"]
        self.w("<" + tag)
        for name, parts in n["static"]:
            self.w(' %s="' % name)
            self.parts(parts)
            self.w('"')
        pre = "" if n["talns"] else ("data-tal-" if self.data else "tal:")
        # (on an element of the tal: namespace every unprefixed attribute is
        # a TAL statement: metal / i18n attributes keep their prefix there)
        data_here = self.data and not n["talns"]
        self.mpre = "data-metal-" if data_here else "metal:"
        self.ipre = "data-i18n-" if data_here else "i18n:"
        for s in n["order"]:
            self.value_start = None
            if s == "define":
                self.w(self.sp() + '%sdefine="' % pre)
                self.value_start = self.pos
                for i, (scope, name, e) in enumerate(n["define"]):
                    if i:
                        self.w("; ")
                    self.w((scope + " " if scope else "") + name + " ")
                    self.part_start = self.pos
                    self.expr(e, "define")
                    self.part_start = None
                self.w('"')
            elif s in ("condition", "switch", "case"):
                self.w(self.sp() + '%s%s="' % (pre, s))
                self.expr(n[s], s)
                self.w('"')
            elif s == "repeat":
                self.w(self.sp() + '%srepeat="%s ' % (pre, n["repeat"][0]))
                self.part_start = self.pos      # (";;" is unescaped here too)
                self.expr(n["repeat"][1], "repeat")
                self.part_start = None
                self.w('"')
            elif s in ("content", "replace"):
                mode, e = n[s]
                self.value_start = self.pos
                self.w(self.sp() + '%s%s="%s' % (pre, s, mode + " " if mode else ""))
                self.expr(e, s)
                self.w('"')
            elif s == "omit":
                self.w(self.sp() + '%somit-tag="' % pre)
                if n["omit"] != "":
                    self.expr(n["omit"], "omit")
                self.w('"')
            elif s == "attributes":
                self.w(self.sp() + '%sattributes="' % pre)
                self.value_start = self.pos
                for i, (name, e) in enumerate(n["attributes"]):
                    if i:
                        self.w("; ")
                    self.w(name + " ")
                    self.part_start = self.pos
                    self.expr(e, "attr")
                    self.part_start = None
                self.w('"')
            elif s == "translate":
                self.w(self.sp() + self.ipre + 'translate=""')
            elif s == "i18n_name":
                self.w(self.sp() + self.ipre + 'name="%s"' % n[s])
            elif s == "i18n_domain":
                self.w(self.sp() + self.ipre + 'domain="%s"' % n[s])
            elif s == "i18n_context":
                self.w(self.sp() + self.ipre + 'context="%s"' % n[s])
            elif s == "define_macro":
                self.w(self.sp() + self.mpre + 'define-macro="%s"' % n[s])
            elif s == "define_slot":
                self.w(self.sp() + self.mpre + 'define-slot="%s"' % n[s])
            elif s == "fill_slot":
                self.w(self.sp() + self.mpre + 'fill-slot="%s"' % n[s])
            elif s == "use_macro":
                self.w(self.sp() + self.mpre + 'use-macro="')
                start = self.pos
                text = "%s.macros['%s']" % (n.get("use_var") or "template",
                                            n[s])
                if n.get("use_pipe"):
                    text = "nomacro | python: " + text
                self.w(text)
                self.occ.append({"start": start, "end": self.pos,
                                 "kind": "use_macro", "e": "use",
                                 "parent": None, "eid": n["eid"]})
                self.w('"')
            elif s == "on_error":
                mode, e = n["on_error"]
                self.w(self.sp() + '%son-error="%s' % (pre, mode + " " if mode else ""))
                self.expr(e, "on_error")
                self.w('"')
        if n.get("selfclose"):
            self.w(" />")
            return
        self.w(">")
        self.depth += 1
        for c in n["children"]:
            if self.pretty:
                self.w("\n" + "  " * self.depth)
                if self.seps:
                    # characters str.splitlines() breaks at, but which do
                    # not end a line of the template: form feed, file /
                    # group separators, NEL, LINE / PARAGRAPH SEPARATOR
                    self.w("\u00e9\x0c\u2028\x1c\x85\u2029\u00df ")
                elif c["t"] == "text" and self.depth % 2:
                    self.w("\u00e9\u00df ")
            self.node(c)
        self.depth -= 1
        if self.pretty and n["children"]:
            self.w("\n" + "  " * self.depth)
        self.w("</" + tag + ">")

    def source(self, tree: dict) -> str:
        self.node(tree)
        src = "".join(self.buf)
        for o in self.occ:
            o["text"] = src[o["start"]:o["end"]]
            # what entity decoding removes before / inside this unit in the
            # same attribute value (see C12: residual position drift)
            vs = o.get("value_start")
            o["ent_before"] = sum(
                len(m.group(0)) - 1 for m in _ENT.finditer(
                    src[vs:o["start"]])) if vs is not None else 0
            o["ent_inside"] = sum(
                len(m.group(0)) - 1 for m in _ENT.finditer(o["text"]))
            # ... and what unescaping ";;" removes, within the unit's own
            # part of a define / attributes list
            ps = o.get("part_start")
            if ps is not None:
                o["ent_before"] += src[ps:o["start"]].count(";;")
                o["ent_inside"] += o["text"].count(";;")
            before = src[:o["start"]]
            o["line"] = before.count("\n") + 1
            o["col"] = o["start"] - (before.rfind("\n") + 1)
        return src


def serialise(tree: dict, pretty: bool = False,
              fname: str | None = None, seps: bool = False,
              data: bool = False) -> tuple[str, list]:
    s = Ser(pretty, seps, data)
    src = s.source(tree)
    for o in s.occ:
        o["file"] = fname
    return src, s.occ


def iter_elements(node: dict):
    if node["t"] != "el":
        return
    yield node
    for c in node["children"]:
        yield from iter_elements(c)


def all_probe_ids(e) -> list[int]:
    """Probe ids inside an expression, in source order."""
    if e is None:
        return []
    k = e["k"]
    if k == "P":
        return [e["id"]]
    if k == "pipe":
        return [i for a in e["alts"] for i in all_probe_ids(a)]
    if k in ("not", "exists", "python", "pyform"):
        return all_probe_ids(e["e"])
    if k == "string":
        return [i for p in e["parts"] if p[0] != "lit"
                for i in all_probe_ids(p[1])]
    return []


def gen_fault_plans(ch: Choices, tmpl: dict, reached: list[int],
                    n_plans: int, classes=None) -> list[list]:
    """Fault plans over the probe sites reached in the fault-free run."""
    plans: list[list] = []
    if not reached:
        return plans
    sites = sorted(k for k in set(reached) if k != "T")
    ntr = sum(1 for k in reached if k == "T")
    for _ in range(n_plans):
        nf = ch.weighted([(5, 1), (3, 2), (1, 3)])
        plan = []
        for k in ch.sample(sites, min(nf, len(sites))):
            r = ch.choose(10)
            if r < 7:
                cls = ch.weighted([(4, ch.pick(CAUGHT_NAMES)),
                                   (4, ch.pick(UNCAUGHT_NAMES)),
                                   (1, ch.pick(NONEXC_NAMES))]) \
                    if classes is None else ch.pick(classes)
                do = ["raise", cls]
            else:
                role = tmpl["roles"][str(k)]
                g = Gen(ch, {"badvalues": True})
                do = ["ret", g.value_for(role)]
            n = ch.weighted([(5, "*"), (3, 0), (2, 1)])
            plan.append({"site": k, "n": n, "do": do})
        if ntr and ch.coin(0.25):
            # the translation function fails at one of its calls
            plan.append({"site": "T", "n": ch.choose(ntr),
                         "do": ["raise", ch.pick(UNCAUGHT_NAMES +
                                                 CAUGHT_NAMES)]})
        plans.append(plan)
    return plans
