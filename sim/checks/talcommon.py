"""Shared by C04 / C12 / C13: run one (template, fault plan) on the real
engine and on the reference interpreter."""
from __future__ import annotations

import re

from ..env import Handler, Probe
from ..gen import RENDER_ARGS
from ..model import Model

_TAG = re.compile(r"(<[^>]*>)")
_WS = re.compile(r"[ \n]+")


def norm_out(s: str) -> str:
    # tal:repeat separates iterations by whitespace copied from the source
    # layout (a newline plus indentation, or indentation only).  Generated
    # sources and probe values contain no whitespace outside tags, so all
    # whitespace outside tags in the output is such a separator.
    parts = _TAG.split(s)
    for i in range(0, len(parts), 2):
        parts[i] = _WS.sub("", parts[i])
    return "".join(parts)


def run_real(template, tmpl: dict, plan: list, handler_cfg,
             shared=None) -> dict:
    probe = Probe(tmpl["sites"], plan, shared)
    handler = None
    if handler_cfg is not None:
        handler = Handler(handler_cfg.get("fail_with"))
    res = {"out": None, "raise": None}
    err_records: list = []

    def ERR(error):
        err_records.append({
            "type": getattr(error.type, "__name__", None),
            "args": list(getattr(error.value, "args", ())),
            "lineno": error.lineno, "offset": error.offset})
        return ""
    kw = {"P": probe, "ERR": ERR, "translate": probe.translate}
    kw.update(RENDER_ARGS)
    try:
        if handler is not None:
            template.on_error_handler = handler
        else:
            template.__dict__.pop("on_error_handler", None)
        res["out"] = norm_out(template.render(**kw))
    except BaseException as e:      # noqa: BLE001 - this is the observation
        res["raise"] = [type(e).__name__, e]
    res["history"] = list(probe.history)
    res["tcalls"] = list(probe.tcalls)
    res["handler"] = list(handler.calls) if handler else []
    res["raised"] = list(probe.raised)
    res["err_records"] = err_records
    return res


def run_model(tmpl: dict, plan: list, handler_cfg, case_once=True,
              guard_tags=True, leaky_scope=False,
              raw_default_attr=False) -> dict:
    handler = None
    if handler_cfg is not None:
        handler = Handler(handler_cfg.get("fail_with"))
    m = Model(tmpl, plan, handler, case_once=case_once,
              guard_tags=guard_tags, leaky_scope=leaky_scope,
              raw_default_attr=raw_default_attr)
    res = m.run()
    if res["out"] is not None:
        res["out"] = norm_out(res["out"])
    res["raised"] = list(m.probe.raised)
    return res
