"""Shared behaviour of the per-property checks."""
from __future__ import annotations

import copy
import gc
import time

from ..core import canonical


class CheckBase:
    prop = "C00"
    level = "exploration"

    def budget(self, tier: str) -> dict:
        if tier == "thorough":
            return {"seconds": 780, "runs": 10_000_000, "det_seeds": 24,
                    "run_timeout": 180}
        return {"seconds": 55, "runs": 1_000_000, "det_seeds": 6,
                "run_timeout": 120}

    def warmup(self) -> None:
        pass

    @staticmethod
    def quiesce() -> None:
        """Cyclic garbage collection runs at allocation-count thresholds,
        i.e. at history-dependent instants, and runs finalizers
        (ModuleLoader.__del__) wherever it happens to strike.  The
        simulator owns that too: automatic collection is off, and a full
        collection happens here, between runs."""
        gc.disable()
        gc.collect()

    def gen(self, ch, tier: str) -> dict:
        raise NotImplementedError

    def run(self, case: dict) -> dict:
        raise NotImplementedError

    def sample(self, case: dict, res: dict) -> dict:
        return {"case": case, "outcome": res.get("summary")}

    def evidence(self, agg: dict, tier: str) -> dict:
        raise NotImplementedError

    # -- minimisation ------------------------------------------------------
    def shrink_candidates(self, case: dict):
        """Yield smaller variants of ``case`` (most aggressive first)."""
        return ()

    def still_fails(self, case: dict, sig: str) -> bool:
        try:
            res = self.run(case)
        except Exception:
            return False
        if res.get("harness"):
            return False
        return any(v.get("sig") == sig for v in res.get("violations", ()))

    def minimise(self, case: dict, violation: dict, known_sigs=(),
                 max_tests: int = 250, max_seconds: float = 60.0) -> dict:
        sig = violation["sig"]
        best = copy.deepcopy(case)
        tests = 0
        t0 = time.time()
        seen = {canonical(best)}
        progress = True
        while progress and tests < max_tests and \
                time.time() - t0 < max_seconds:
            progress = False
            for cand in self.shrink_candidates(best):
                key = canonical(cand)
                if key in seen:
                    continue
                seen.add(key)
                tests += 1
                if self.still_fails(cand, sig):
                    best = cand
                    progress = True
                    break
                if tests >= max_tests or time.time() - t0 > max_seconds:
                    break
        best = copy.deepcopy(best)
        best["_minimise"] = {"tests": tests,
                             "seconds": round(time.time() - t0, 2)}
        return best
