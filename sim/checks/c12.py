"""C12 - render errors keep type, args, the failing expression and its
position.

Per generated template (laid out over several lines, with non-ASCII text
before expressions): for every probe site reached in the fault-free run and
every class of the exception zoo, one render in which exactly that
invocation fails; plus sampled two-fault plans in which an earlier failure
is recovered (pipe / on-error) before a later one propagates.

Oracle on whatever render() raises:
  1. class: still an instance of the original class; RenderError added iff
     the original derives from Exception (RecursionError: the very class);
     outside Exception: never an Exception;
  2. args (and SystemExit.code) preserved;
  3. str(e) parsed into (expression, filename, line, column) records: the
     first record is one of the expression units that enclose the failing
     call, at that unit's true line/column; no further record in a
     single-file template;
  4. nothing is returned.
"""
from __future__ import annotations

import os
import re

from ..core import Choices, short_hash
from ..env import (CAUGHT_NAMES, NONEXC_NAMES, UNCAUGHT_NAMES, ZOO_CLASSES,
                   Probe, _args, exc_state)
from ..gen import Gen, serialise
from .c13 import tal_evidence
from .talbase import TalCheck
from .talcommon import run_real

REC = re.compile(
    r' - Expression: "(?P<expr>(?s:.*?))"\n - Filename:   (?P<file>[^\n]*)\n'
    r' - Location:   \(line (?P<line>\d+): col (?P<col>\d+)\)')
ALL_CLASSES = CAUGHT_NAMES + UNCAUGHT_NAMES + NONEXC_NAMES


def parse_records(msg: str) -> list:
    return [(m.group("expr"), m.group("file"), int(m.group("line")),
             int(m.group("col"))) for m in REC.finditer(msg)]


class C12(TalCheck):
    prop = "C12"
    level = "fault_enumeration"
    hold_exceptions = True
    gen_opts = {"on_error": 0.12, "max_sites": 20, "pipes": 0.3,
                "prefixes": 0.3, "max_depth": 3, "macros": 0.25, "i18n": 0.1,
                "entities": 0.25, "code": 0.15, "twins": 0.25,
                "pyforms": 0.15}
    async_interrupts = 12

    def gen(self, ch: Choices, tier: str) -> dict:
        if ch.coin(0.35):
            # macro / load: chains over several files
            opts = dict(self.gen_opts, macros=0.45, max_sites=30)
            g = Gen(ch, opts)
            tmpl = g.template_set(1 + ch.choose(2))
        else:
            g = Gen(ch, self.gen_opts)
            tmpl = g.template()
        pretty = ch.coin(0.85)
        return {"tmpl": tmpl, "plan_seed": ch.choose(1 << 30),
                "pretty": pretty, "crlf": pretty and ch.coin(0.2),
                "seps": pretty and ch.coin(0.25), "data": ch.coin(0.15),
                "bom": "files" not in tmpl and ch.coin(0.1),
                # (now and then: a failure under that many macro calls)
                **({"deep": ch.pick([1, 3, 23, 24, 25, 40, 70]),
                    "deep_cls": ch.pick(["ValueError", "KeyError",
                                         "RuntimeError"])}
                   if ch.coin(0.08) else {})}

    def make_plans(self, case, tmpl, template) -> list:
        if "plans" in case:
            return [(p["plan"], p.get("handler")) for p in case["plans"]]
        ch = Choices(case["plan_seed"])
        base = run_real(template, tmpl, [], None)
        counts: dict[int, int] = {}
        for k in base["history"]:
            if k != "T":            # (calls of the translation function)
                counts[k] = counts.get(k, 0) + 1
        plans = []
        for k in sorted(counts):
            for cls in ALL_CLASSES:
                plans.append(([{"site": k, "n": 0, "do": ["raise", cls]}],
                              None))
            if counts[k] > 1:
                cls = ch.pick(UNCAUGHT_NAMES)
                plans.append(([{"site": k, "n": counts[k] - 1,
                                "do": ["raise", cls]}], None))
            # failures *after* the expression returned: while its value is
            # converted for insertion (__html__) or iterated (__next__)
            role = tmpl["roles"].get(str(k))
            if role in ("content", "replace", "attr", "interp", "part"):
                plans.append(([{"site": k, "n": 0, "do": ["ret", {
                    "v": "badhtml", "cls": ch.pick(UNCAUGHT_NAMES)}]}], None))
            elif role == "repeat":
                plans.append(([{"site": k, "n": 0, "do": ["ret", {
                    "v": ch.pick(["baditer", "badseq"]), "n": ch.choose(3),
                    "cls": ch.pick(UNCAUGHT_NAMES)}]}], None))
        # the very same exception object raised again by a later render
        # (a module-level sentinel, a memoised failure, a Future's result)
        sites = sorted(counts)
        if len(sites) >= 2 and ch.coin(0.5):
            cls = ch.pick([c for c in UNCAUGHT_NAMES
                           if c not in ("RecursionError", "E7")])
            for k in ch.sample(sites, min(3, len(sites))):
                plans.append(([{"site": k, "n": 0,
                                "do": ["raise", cls, "shared"]}], None))
        # an earlier, recovered failure before a later, propagating one
        sites = sorted(counts)
        for _ in range(min(20, len(sites) * 2)):
            if len(sites) < 2:
                break
            a, b = sorted(ch.sample(sites, 2))
            plans.append(([
                {"site": a, "n": 0, "do": ["raise", ch.pick(CAUGHT_NAMES)]},
                {"site": b, "n": "*", "do": ["raise",
                                             ch.pick(UNCAUGHT_NAMES)]}],
                ch.pick([None, {}])))
        return plans

    # -- errors that cross a nested render() call made by user code ----------
    OUTER = ('<html>\n  <div class="w" tal:content="structure inner()">x'
             '</div>\n</html>')

    def _run_plans(self, case, tmpl, src, occ, template, log) -> dict:
        res = super()._run_plans(case, tmpl, src, occ, template, log)
        if not res["violations"]:
            v = self.nested_render(case, tmpl, template, log, res)
            if v is not None:
                res["violations"].append(v)
            elif case.get("deep"):
                v = self.deep_chain(case, log, res)
                if v is not None:
                    res["violations"].append(v)
            res["digest"] = log.digest()
        return res

    # -- a failure under many macro calls (a tree, a menu) ------------------------
    DEEP = ('<div metal:define-macro="rec" class="level">\n'
            '  <tal:block tal:condition="n > 0">\n'
            '    <div tal:define="n n - 1" '
            'metal:use-macro="template.macros[\'rec\']"/>\n'
            '  </tal:block>\n'
            '  <b tal:condition="n == 0">${boom(n)}</b>\n</div>')

    def deep_chain(self, case, log, res):
        """The records of a failure that comes up through ``depth`` calls of
        a macro that uses itself: the failing expression first, then every
        call site - however many there are."""
        from ..env import ZOO
        t = self.zt.PageTemplate(self.DEEP)
        lines = self.DEEP.split("\n")
        first = ("boom(n)", "<string>", 5, lines[4].index("boom(n)"))
        call = ("template.macros['rec']", "<string>", 3,
                lines[2].index("template.macros"))
        depth = case["deep"]
        make = ZOO[case.get("deep_cls", "ValueError")]
        cls = type(make())

        def boom(n):
            raise make()
        try:
            t.render(n=depth, boom=boom)
            got, e = None, None
        except Exception as e_:         # noqa: BLE001
            e = e_
            try:
                got = parse_records(str(e))
            except Exception as e2:     # noqa: BLE001
                got = "str() raised %s" % type(e2).__name__
        want = [first] + [call] * depth
        res["stats"]["plans"] += 1
        log.add("deep", depth, got == want)
        if got != want or not isinstance(e, cls):
            return {"kind": "deep-chain", "sig": "deep-chain",
                    "detail": f"a {cls.__name__} under {depth} calls of a "
                              f"macro that uses itself came out as "
                              f"{type(e).__name__} with "
                              f"{len(got) if isinstance(got, list) else got}"
                              f" records, the first ones "
                              f"{str(got[:3] if isinstance(got, list) else got)[:300]}; "
                              f"expected {want[:2]} and {depth - 1} more "
                              f"call sites",
                    "plan_index": 0, "plan": [], "handler": None}
        return None

    def nested_render(self, case, tmpl, template, log, res):
        """A template whose expression calls a helper that renders *this*
        template (a widget, a portlet).  The inner failure must come out of
        the outer render() with its class, and with the inner records
        followed by the outer call site - also when the helper looked at
        the message on the way (logged it and re-raised)."""
        outer = self.zt.PageTemplate(self.OUTER)
        line2 = self.OUTER.split("\n")[1]
        site = ("inner()", "<string>", 2, line2.index("inner()"))
        done = 0
        for plan, hcfg in self.make_plans(case, tmpl, template):
            if done >= 3:
                break
            if len(plan) != 1 or plan[0]["do"][0] != "raise" or \
                    plan[0]["do"][1] in NONEXC_NAMES + ["RecursionError"]:
                continue
            r0 = run_real(template, tmpl, plan, hcfg)
            if r0["raise"] is None or \
                    not isinstance(r0["raise"][1], Exception):
                continue
            try:
                want = parse_records(str(r0["raise"][1])) + [site]
            except Exception:       # noqa: BLE001 - judged by the oracle
                continue
            cls = type(r0["raised"][-1][2]) if r0["raised"] else None
            done += 1
            # (depth: the outer template renders itself that many times
            # before the helper gets to the case's template - the same call
            # site is then on the stack more than once)
            for peek, depth in ((False, 0), (True, 0), (True, 2)):
                want = want[:len(want) - want.count(site)] + \
                    [site] * (depth + 1)
                level = [0]

                def inner(peek=peek, depth=depth, level=level):
                    if level[0] < depth:
                        level[0] += 1
                        return outer.render(inner=inner)
                    r1 = run_real(template, tmpl, plan, hcfg)
                    if r1["raise"] is None:
                        return r1["out"]
                    if peek:
                        str(r1["raise"][1])     # logged on the way out
                    raise r1["raise"][1]
                try:
                    outer.render(inner=inner)
                    got, e = None, None
                except Exception as e_:         # noqa: BLE001
                    e = e_
                    try:
                        got = parse_records(str(e))
                    except Exception as e2:     # noqa: BLE001
                        got = "str() raised %s" % type(e2).__name__
                res["stats"]["plans"] += 1
                log.add("nested", peek, got == want)
                if got != want or (cls is not None and
                                   not isinstance(e, cls)):
                    return {
                        "kind": "nested-render", "sig": "nested-render",
                        "detail": f"the failure of plan {plan} inside a "
                                  f"render() called from an expression of "
                                  f"another template"
                                  f"{' (message read on the way out)' if peek else ''}"
                                  f" came out as {type(e).__name__} with "
                                  f"records {str(got)[:500]}; expected the "
                                  f"inner records followed by the call "
                                  f"site: {str(want)[:500]}",
                        "plan_index": 0, "plan": plan, "handler": hcfg}
        return None

    def is_nontrivial(self, plan, r, m) -> bool:
        return r["raise"] is not None

    def oracle(self, case, src, occ, tmpl, plan, hcfg, r, m, cover) -> list:
        vs = []
        if r["raise"] is None:
            return vs
        e = r["raise"][1]
        if not r["raised"]:
            return [{"kind": "spurious", "sig": "spurious-exception",
                     "detail": f"render() raised {type(e).__name__} although "
                               "no probe raised"}]
        k, n, orig = r["raised"][-1]
        cls = type(orig)
        cname = cls.__name__
        cover.add("propagated:" + cname)
        from chameleon.exc import RenderError
        # 1. class
        if not isinstance(e, cls):
            vs.append(self._v("class-lost", k, cname,
                              f"raised {type(e).__mro__} which is not a "
                              f"{cname}"))
        elif cls is RecursionError:
            if type(e) is not RecursionError:
                vs.append(self._v("recursionerror-wrapped", k, cname,
                                  f"RecursionError came out as {type(e).__mro__}"))
        elif issubclass(cls, Exception):
            if not isinstance(e, RenderError):
                vs.append(self._v("not-a-rendererror", k, cname,
                                  f"{type(e).__mro__} lacks RenderError"))
        else:
            if isinstance(e, Exception):
                vs.append(self._v(
                    "nonexception-retyped", k, cname,
                    f"{cname} raised by an expression left render() as "
                    f"{[c.__name__ for c in type(e).__mro__]}, an Exception "
                    "subclass"))
        # 2. args
        if _args(e) != _args(orig):
            vs.append(self._v("args-changed", k, cname,
                              f"args {_args(e)} != original {_args(orig)}"))
        # ... and what the object carries besides args (errno, filename,
        # value, slots, instance attributes)
        so, se = exc_state(orig), exc_state(e)
        lost = {n: (so[n], se.get(n, "<missing>")) for n in so
                if se.get(n, "<missing>") != so[n]}
        if lost and not vs:
            vs.append(self._v("state-lost", k, cname,
                              "attributes of the original exception that "
                              f"the raised one lacks or changes: {lost}"))
        if cls is SystemExit and getattr(e, "code", None) != orig.code:
            vs.append(self._v("exit-code-lost", k, cname,
                              f"SystemExit.code {getattr(e, 'code', None)!r} "
                              f"!= {orig.code!r}"))
        # 3. message (only promised for Exception subclasses, not for
        #    RecursionError which passes through untouched)
        if issubclass(cls, Exception) and cls is not RecursionError:
            try:
                msg = str(e)
            except Exception as e2:     # noqa: BLE001
                return vs + [self._v("str-fails", k, cname,
                                     f"str(e) raised {type(e2).__name__}: {e2}")]
            recs = parse_records(msg)
            vs += self.message_under_io_faults(e, recs, k, cname, cover)
            units = self.units(occ, k, m.get("fail_oid")
                               if m["raise"] is not None else None)
            if not recs:
                vs.append(self._v("no-location", k, cname,
                                  "message names no expression: " + msg[:200]))
            else:
                expr, fname, line, col = recs[0]
                if not any(u["text"] == expr and u["line"] == line and
                           u["col"] == col for u in units):
                    at = None
                    kind = "wrong-expression"
                    inner = units[0]
                    # known finding: attribute values are entity-decoded
                    # before they are parsed and positions are counted in
                    # the decoded text, so every entity before the unit
                    # shifts it left by len(entity)-1 and every entity
                    # inside it shortens the quoted excerpt by as much
                    for u in units:
                        if (u["ent_before"] or u["ent_inside"]) and \
                                u["line"] == line and \
                                col == u["col"] - u["ent_before"] and \
                                len(expr) == len(u["text"]) - u["ent_inside"]:
                            kind = "entity-drift"
                            break
                    # classify offset drift precisely (re-sliced excerpts
                    # look plausible but are shifted)
                    for u in units:
                        if kind != "entity-drift" and u["line"] == line and \
                                len(expr) == len(u["text"]):
                            kind = "offset-drift"
                            break
                    vs.append(self._v(
                        kind, k, cname,
                        f"message names {expr!r} at line {line} col {col}; "
                        f"the failing call is {inner['text']!r} at line "
                        f"{inner['line']} col {inner['col']} inside "
                        f"{units[-1]['text']!r} (line {units[-1]['line']} "
                        f"col {units[-1]['col']}); source at the reported "
                        f"position reads {at!r}"))
                want_file = units[0].get("file") or "<string>"
                if fname != want_file:
                    vs.append(self._v(
                        "wrong-filename", k, cname,
                        f"the failing expression is reported in "
                        f"{os.path.basename(fname)!r}, it stands in "
                        f"{os.path.basename(want_file)!r}"))
                # the enclosing call sites, innermost first
                stack = m.get("use_stack") or []
                if m["raise"] is None:
                    stack = None        # (the model saw no failure: skip)
                if stack is not None:
                    want = []
                    for eid in reversed(stack):
                        u = next(o for o in occ if o.get("eid") == eid)
                        want.append((u["text"], os.path.basename(
                            u.get("file") or "<string>"), u["line"],
                            u["col"]))
                    got = [(r_[0], os.path.basename(r_[1]), r_[2], r_[3])
                           for r_ in recs[1:]]
                    if got != want:
                        kind = "call-sites"
                        if len(got) > len(want) and got[-len(want):] == want \
                                if want else len(got) > 0:
                            kind = "stale-records"
                        vs.append(self._v(
                            kind, k, cname,
                            f"after the failing expression the message "
                            f"lists {got}; the enclosing use-macro sites "
                            f"(innermost first) are {want}"))
                if stack:
                    cover.add("stack-depth-%d" % len(stack))
        return vs

    def message_under_io_faults(self, e, recs, k, cname, cover) -> list:
        """The message is built when str() is taken and re-opens the
        template files for the source excerpts: whatever happens to those
        files then (descriptors exhausted, permissions, an I/O error, a
        directory in the file's place), str() must still answer and name
        the same expressions at the same places."""
        import errno
        from .. import fs
        files = {r_[1] for r_ in recs if not r_[1].startswith("<")}
        if not files:
            return []
        out = []
        for name, eno in (("EMFILE", errno.EMFILE), ("EACCES", errno.EACCES),
                          ("EIO", errno.EIO), ("EISDIR", errno.EISDIR),
                          ("ENOENT", errno.ENOENT),
                          # the process runs with LC_ALL=C: the (UTF-8)
                          # file is not decodable in the locale's encoding
                          ("locale=C", "ascii")):
            hit = []

            def hook(path, mode, eno=eno, hit=hit):
                if os.fspath(path) in files and "r" in mode:
                    hit.append(1)
                    return eno
                return None
            fs.open_fault[0] = hook
            try:
                try:
                    msg2 = str(e)
                except Exception as e2:     # noqa: BLE001
                    out.append(self._v(
                        "str-fails-under-io-fault", k, cname,
                        f"with open() of the template file failing with "
                        f"{name}, str(e) raised {type(e2).__name__}: {e2}"))
                    break
            finally:
                fs.open_fault[0] = None
            if hit:
                cover.add("message-io-fault:" + name)
            if parse_records(msg2) != recs:
                out.append(self._v(
                    "records-change-under-io-fault", k, cname,
                    f"with open() failing with {name} the message names "
                    f"{parse_records(msg2)} instead of {recs}"))
                break
        return out

    @staticmethod
    def units(occ: list, k: int, oid=None) -> list:
        """Expression units enclosing probe k (the occurrence ``oid`` of
        it, when the same expression text stands at several positions),
        innermost first."""
        idx = None
        if oid is not None:
            idx = next((i for i, o in enumerate(occ)
                        if o.get("oid") == oid), None)
        if idx is None:
            idx = next(i for i, o in enumerate(occ) if o.get("probe") == k)
        out = []
        while idx is not None:
            out.append(occ[idx])
            idx = occ[idx]["parent"]
        return out

    def _v(self, kind, k, cname, detail) -> dict:
        return {"kind": kind, "sig": kind,
                "detail": f"site P({k}) raising {cname}: {detail}"}

    def evidence(self, agg: dict, tier: str) -> dict:
        return tal_evidence(agg, (
            "single-file templates from the seeded tree generator, 85% of "
            "them laid out over several lines with indentation and "
            "non-ASCII text before expressions; per template every probe "
            "site reached in the fault-free run x each of 29 exception "
            "classes (first invocation; last invocation for repeated "
            "sites) as single-fault plans - enumerated, not sampled - plus "
            "up to 20 two-fault plans with an earlier recovered failure. "
            "Non-trivial: an exception actually left render(); distinct by "
            "hash of (source, plan)."))


CHECK = C12()
