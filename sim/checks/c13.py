"""C13 - tal:on-error replaces exactly the failed element's output with the
fallback.

Generated templates carry tal:on-error on any subset of elements (nested,
with omit-tag, repeat, define, switch/case in between); fault plans make
sets of evaluation points raise (first / middle / last expression of an
element, inside and after inner handlers, inside the fallback expression,
classes inside and outside the Exception hierarchy), with an
on_error_handler configured, absent, or itself failing.  Oracle: the
reference interpreter's output text, handler call list and propagated
exception.
"""
from __future__ import annotations

from ..core import short_hash
from ..env import _args
from .talbase import TalCheck
from .talcommon import run_model


def _argl(a) -> list:
    return [x if isinstance(x, (int, str, type(None))) else repr(x)
            for x in a]


class C13(TalCheck):
    prop = "C13"
    level = "fault_enumeration"
    gen_opts = {"on_error": 0.5, "max_sites": 24, "pipes": 0.2,
                "prefixes": 0.15, "macros": 0.3, "i18n": 0.2, "code": 0.1,
                "markers": 0.3, "errinfo_all": 0.3, "selfclose": 0.4}
    plans_per_template = 45
    async_interrupts = 10

    def is_nontrivial(self, plan, r, m) -> bool:
        return m.get("handled", 0) > 0 or (
            bool(r["raised"]) and r["raise"] is not None)

    def oracle(self, case, src, occ, tmpl, plan, hcfg, r, m, cover) -> list:
        vs = self._judge(occ, r, m, cover)
        if not vs:
            return vs
        # Known findings F12 (with a tal:omit-tag *expression* on the
        # element the fallback never carries the element's tags, not even
        # when the guard had come out false) and F16 (local definitions of
        # elements left by a handled exception are not restored).
        # Everything that follows from them (an emptied translation block
        # is not translated, so a failing translation function is never
        # called; a leaked variable shows in later text ...) is judged
        # against the model variant that behaves that way; only an
        # observation that agrees with such a variant in *every* respect
        # is filed under the finding, any other deviation is reported.
        variants = []
        if m.get("guard_relevant"):
            variants.append(("fallback-tags-dropped-with-false-omit-guard",
                             {"guard_tags": False}))
        if m.get("scope_relevant"):
            variants.append(("scope-not-restored-after-handled-failure",
                             {"leaky_scope": True}))
        if len(variants) == 2:
            variants.append(("scope-not-restored-after-handled-failure",
                             {"guard_tags": False, "leaky_scope": True}))
        for sig, kw in variants:
            alt = run_model(tmpl, plan, hcfg, **kw)
            if not self._judge(occ, r, alt, set()):
                return [{
                    "kind": "output", "sig": sig,
                    "detail": f"rendered {r['out']!r} / raised "
                              f"{r['raise'] and r['raise'][0]}\n expected "
                              f"{m['out']!r} / {m['raise'] and m['raise'][0]}"}]
        return vs

    def _judge(self, occ, r, m, cover) -> list:
        vs = []
        if m.get("handled"):
            cover.add("handled")
            if m["handled"] > 1:
                cover.add("handled-several")
        if m["raise"] is not None and m["handled"]:
            cover.add("propagated-after-recovery")
        rr, mr = r["raise"], m["raise"]
        if (rr is None) != (mr is None):
            if rr is not None:
                d = (f"render() raised {rr[0]}({_args(rr[1])}) but the "
                     f"element's on-error should have produced "
                     f"{m['out']!r}")
                vs.append({"kind": "escaped", "sig": "escaped-handler",
                           "detail": d})
            else:
                d = (f"render() returned {r['out']!r} but "
                     f"{mr[0]}({_args(mr[1])}) should have propagated")
                vs.append({"kind": "swallowed", "sig": "swallowed",
                           "detail": d})
        elif rr is not None:
            if rr[0] != mr[0] or _args(rr[1]) != _args(mr[1]):
                vs.append({"kind": "propagation", "sig": "wrong-exception",
                           "detail": f"render() raised {rr[0]}"
                                     f"({_args(rr[1])}), expected {mr[0]}"
                                     f"({_args(mr[1])})"})
        elif r["out"] != m["out"]:
            sig = "output"
            vs.append({"kind": "output", "sig": sig,
                       "detail": f"rendered {r['out']!r}\n expected "
                                 f"{m['out']!r}"})
        # what the fallback expression read from ``error``
        re_, me_ = r.get("err_records", []), m.get("err_records", [])
        if [(x["type"], _argl(x["args"])) for x in re_] != \
                [(x["type"], _argl(x["args"])) for x in me_]:
            vs.append({"kind": "error-variable", "sig": "error-variable",
                       "detail": f"fallback expressions saw error type/value "
                                 f"{[(x['type'], x['args']) for x in re_]}, "
                                 f"expected {[(x['type'], x['args']) for x in me_]}"})
        else:
            for x, y in zip(re_, me_):
                if y["site"] is None:
                    continue
                cover.add("error-position-checked")
                units = [(o["line"], o["col"])
                         for o in self._units(occ, y["site"], y.get("oid"))]
                if not y["same_function"]:
                    # the failure came out of a macro call or slot content:
                    # the failing expression itself, or one of the
                    # use-macro expressions it was reached through - but a
                    # position
                    cover.add("error-position-across-functions")
                    units += [(o["line"], o["col"]) for o in occ
                              if o.get("kind") == "use_macro" and
                              o.get("eid") in y.get("use_stack", ())]
                if (x["lineno"], x["offset"]) not in units:
                    vs.append({
                        "kind": "error-position", "sig": "error-position",
                        "detail": f"error.lineno/offset = ({x['lineno']}, "
                                  f"{x['offset']}) for a failure of P("
                                  f"{y['site']}), whose enclosing expressions "
                                  f"stand at {units}"})
                    break
        if r.get("tcalls") != m.get("tcalls") and not vs:
            # what the translation function was handed: message ids with
            # ${name} placeholders and the named parts in the mapping
            vs.append({"kind": "translate-calls", "sig": "translate-calls",
                       "detail": f"the translation function was called with "
                                 f"{str(r.get('tcalls'))[:400]}, expected "
                                 f"{str(m.get('tcalls'))[:400]}"})
        if r["handler"] != m["handler"]:
            vs.append({"kind": "handler", "sig": "handler-calls",
                       "detail": f"on_error_handler calls {r['handler']}, "
                                 f"expected {m['handler']}"})
        return vs

    @staticmethod
    def _units(occ: list, k: int, oid=None) -> list:
        # (the same expression text may stand at several positions: the
        # model says which occurrence failed)
        idx = None
        if oid is not None:
            idx = next((i for i, o in enumerate(occ)
                        if o.get("oid") == oid), None)
        if idx is None:
            idx = next(i for i, o in enumerate(occ) if o.get("probe") == k)
        out = []
        while idx is not None:
            out.append(occ[idx])
            idx = occ[idx]["parent"]
        return out

    def evidence(self, agg: dict, tier: str) -> dict:
        return tal_evidence(agg, (
            "templates from the seeded tree generator with tal:on-error on "
            "about half of the elements (depth <= 3 below the root, with "
            "omit-tag, repeat, define, condition, switch/case, content / "
            "replace, attributes and ${} interpolation in between); per "
            "template the fault-free plan plus 45 sampled plans of 1-3 "
            "probe invocations that raise (classes from a 21-member zoo "
            "inside and outside Exception) or return another value, with "
            "on_error_handler absent / recording / itself failing. A plan "
            "is non-trivial if at least one on-error element handled a "
            "failure or a failure propagated; distinct by hash of (source, "
            "plan, handler)."))


def tal_evidence(agg: dict, rule: str) -> dict:
    cover = agg["cover"]
    st = agg["stats"]
    fired = st.get("fired", {})
    return {
        "rule": rule,
        "distinct": {"exception_classes_injected": list(fired)},
        "probes": dict(cover),
        "real_vs_stub": {
            "real": ["all of chameleon: tokenizer, parser, compiler, code "
                     "generation, the generated render function, "
                     "BaseTemplate.render"],
            "stub": ["every callable bound in the template (the probe P, "
                     "on_error_handler): they log, then return or raise per "
                     "the fault plan", "the reference interpreter that "
                     "supplies expected values", "asynchronous "
                     "KeyboardInterrupt / SystemExit raised from the "
                     "sys.monitoring LINE callback at the n-th (distinct) "
                     "line of a render (C12, C13: every second template)"]},
        "assumptions": [
            "the reference interpreter (sim/model.py) is trusted for the "
            "generated subset; it follows docs/reference.rst and the "
            "property statement, not the implementation",
            "whitespace that tal:repeat copies from the source layout is "
            "normalised away before comparing"],
        "extra": {"fault_plans_executed": st.get("plans", 0),
                  "probe_calls": st.get("probe_calls", 0)},
    }


CHECK = C13()
