"""C16 - file templates follow their files; the loader resolves names
predictably.

Two actors, strictly sequential (the history *is* the schedule):

  deployer  owns the sandbox file system and the simulated clock: writes
            versions of files, stamps mtimes (forward, backward, same tick,
            sub-second), deletes and restores
  server    owns PageTemplateFile objects and a PageTemplateLoader, and
            uses them: render, list macros, use a macro from another
            template, read the content type, load by name, render a
            template that pulls another one in with ``load:``

The server runs as a simulated process, so its reads and mtime look-ups are
events at which the fault plan can inject EIO / ENOENT.

Reference model: file system = path -> (version, mtime); template object =
(last seen mtime, compiled version); the mtime rule decides *when* a
reload must happen, and what must be served then is obtained from an
independent instance built on a private copy of exactly that version.
"""
from __future__ import annotations

import copy
import os

from ..chamsim import import_chameleon
from ..core import Choices, EventLog, canonical, short_hash
from ..fs import World, real
from .base import CheckBase
from .c15 import norm_msg

NS = 1_000_000_000
T0 = 1_700_000_000


def content(v: dict) -> str:
    """Deterministic text of a version."""
    tag = v["tag"]
    fl = v.get("flavour", "html")
    macros = "".join(
        '<div metal:define-macro="m%d" class="m">%s-m%d ${x}</div>' % (j, tag, j)
        for j in v.get("macros", ()))
    callee = v.get("callee")
    inc = ""
    if callee:
        inc = ('<section tal:define="o load: %s" metal:use-macro="o">inc'
               '</section>' % callee)
    body = "<p>%s x=${x}</p>%s%s" % (tag, macros, inc)
    if fl == "xml":
        return '<?xml version="1.0" encoding="utf-8"?>\n<doc>%s</doc>' % body
    if fl == "meta":
        return ('<html><head><meta http-equiv="Content-Type" '
                'content="application/xhtml+xml; charset=utf-8" /></head>'
                '<body>%s</body></html>' % body)
    if fl == "broken_expr":
        return '<html><body>%s<i tal:content="a b c">x</i></body></html>' % body
    if fl == "broken_tag":
        return "<html><body>%s</div></body></html>" % body
    if fl == "text":
        return "%s x=${x}\n" % tag
    return "<html><body>%s</body></html>" % body


BROKEN = ("broken_expr", "broken_tag")


class Obj:
    """Model state of one template object."""

    def __init__(self, path: str, auto_reload: bool) -> None:
        self.path = path
        self.auto_reload = auto_reload
        self.seen = None          # mtime last seen (None: never looked)
        self.version = None       # version dict compiled, or None = invalid
        self.compiles = 0
        self.children: dict[str, "Obj"] = {}
        self.real = None
        self.serial = None        # identity of the instance last returned
        self.ever_cooked = False
        self.count_unknown = False
        self.fmt = None
        self.tainted = False
        self.taint_mtimes: set = set()
        self.taint_versions: list = []
        # after a write *during* a use: the exact (recorded mtime, compiled
        # version) states the object can be in (None = needs compiling)
        self.taint_pairs: list | None = None
        self.pre_version = None
        self.pre_seen = None
        self.prepend = True       # own directory first for load:


class C16(CheckBase):
    prop = "C16"
    level = "exploration"

    def warmup(self) -> None:
        import_chameleon()
        from chameleon.zpt import template as zt
        from chameleon.zpt.loader import TemplateLoader
        self.zt = zt
        self.TemplateLoader = TemplateLoader
        from .. import trace
        trace.install()
        self.trace = trace
        counting = {}
        serials = [0]

        def serial_of(t):
            # (identity that survives the death of an instance: an id() can
            # be handed out again)
            s_ = t.__dict__.get("_v_serial")
            if s_ is None:
                serials[0] += 1
                s_ = t.__dict__["_v_serial"] = serials[0]
            return s_

        class CountingFile(zt.PageTemplateFile):
            def cook(self, body):
                k_ = serial_of(self)
                counting[k_] = counting.get(k_, 0) + 1
                return super().cook(body)

        class CountingText(zt.PageTextTemplateFile):
            def cook(self, body):
                k_ = serial_of(self)
                counting[k_] = counting.get(k_, 0) + 1
                return super().cook(body)

        self.serial_of = serial_of
        self.serials = serials

        self.CountingFile = CountingFile
        self.CountingText = CountingText
        self.counting = counting
        self._ref_cache: dict[str, list] = {}
        case = self.gen(Choices(1), "quick")
        self.run(case)
        self.run(case)

    # -- generation ----------------------------------------------------------
    def _version(self, ch: Choices, n: int, fname: str, callee=None,
                 allow_broken=True) -> dict:
        fl = ch.weighted([(6, "html"), (2, "xml"), (2, "meta"),
                          (1 if allow_broken else 0, "broken_expr"),
                          (1 if allow_broken else 0, "broken_tag")], "fl")
        nm = ch.choose(4)
        macros = sorted(ch.sample(range(4), nm)) if nm else []
        v = {"tag": "%s.v%d" % (fname.replace("/", "_"), n), "flavour": fl,
             "macros": macros}
        if callee:
            v["callee"] = callee
        return v

    def gen_interrupted_reload(self, ch: Choices) -> dict:
        """A focused history: a version is in use; the next one (more
        macros) is being loaded when an asynchronous exception arrives at a
        line that touches the instance's state; the very next use already
        finds a third version that defines fewer macros."""
        p = "d0/a.pt"
        m1 = sorted(ch.sample(range(4), ch.choose(3)))
        m2 = sorted(set(m1) | set(ch.sample(range(4), 1 + ch.choose(2))))
        m3 = sorted(ch.sample(m1, ch.choose(len(m1) + 1))) if m1 else []

        def v(n, macros):
            return {"tag": "d0_a.pt.v%d" % n, "flavour": ch.pick(
                ["html", "html", "xml"]), "macros": macros}
        ops = [[ch.pick(["render", "names", "ctype"]), 0],
               ["write", p, v(2, m2), 1.0, "atomic"],
               [ch.pick(["render", "names", "use", "ctype"]), 0],
               ["write", p, v(3, m3), ch.pick([1.0, 1.0, 0.001]), "atomic"],
               ["names", 0], ["render", 0]]
        if ops[2][0] == "use":
            ops[2].append(ch.choose(4))
        mode = ch.weighted([(6, "access"), (2, "distinct"), (1, "creturn")])
        faults = {"2": {"kind": "interrupt", "mode": mode,
                        "nth": 1 + ch.choose(36 if mode != "distinct" else 90),
                        "exc": ch.pick(["KeyboardInterrupt", "MemoryError",
                                        "SystemExit"])}}
        return {"dirs": ["d0"], "search_path": ["d0"], "pkg_path": False,
                "default_extension": None, "auto_reload": True,
                "files": {p: v(1, m1)},
                "objects": [{"path": p, "auto_reload": True}],
                "ops": ops, "faults": faults, "format": "xml"}

    def gen(self, ch: Choices, tier: str) -> dict:
        if ch.coin(0.1):
            return self.gen_interrupted_reload(ch)
        ndirs = 1 + ch.choose(3)
        dirs = ["d%d" % i for i in range(ndirs)]
        names = ch.sample(["a.pt", "b.pt", "index", "x.y.pt", "page.html",
                           ".hid"], 1 + ch.choose(3))
        default_ext = ch.pick([None, None, ".pt", "pt", ".html"])
        auto = ch.coin(0.8)
        search = ch.shuffle(dirs)
        if ch.coin(0.2) and len(search) > 1:
            search = search[:-1]
        if ch.coin(0.15):
            search.insert(ch.choose(len(search) + 1), "nonexistent")
        files: dict[str, dict] = {}
        counter = {}

        def newv(path, callee=None, allow_broken=True):
            counter[path] = counter.get(path, 0) + 1
            return self._version(ch, counter[path], path, callee,
                                 allow_broken)

        # which (dir, name) pairs exist initially
        for nme in names:
            present = [d for d in dirs if ch.coin(0.6)] or [ch.pick(dirs)]
            for d in present:
                files[d + "/" + nme] = newv(d + "/" + nme, allow_broken=False)
            if default_ext and "." not in nme:
                ext = "." + default_ext.lstrip(".")
                for d in dirs:
                    if ch.coin(0.5):
                        files[d + "/" + nme + ext] = newv(
                            d + "/" + nme + ext, allow_broken=False)
        # a caller that pulls another template in with load:
        caller = None
        if ch.coin(0.45):
            callee = ch.pick(names)
            cd = ch.pick(dirs)
            caller = cd + "/caller.pt"
            files[caller] = newv(caller, callee=callee, allow_broken=False)
        paths = sorted(files)
        # direct objects
        nobj = 1 + ch.choose(2)
        objects = []
        for p in ch.sample(paths, min(nobj, len(paths))):
            objects.append({"path": p, "auto_reload": auto if ch.coin(0.85)
                            else not auto})
        if caller and not any(o["path"] == caller for o in objects):
            objects.append({"path": caller, "auto_reload": auto})
        all_paths = sorted(set(paths) | {d + "/" + n for d in dirs
                                          for n in names})
        nops = 4 + ch.choose(22 if tier == "thorough" else 16)
        ops = []
        for _ in range(nops):
            k = ch.weighted([(5, "write"), (2, "touch"), (1, "delete"),
                             (7, "render"), (3, "names"), (3, "use"),
                             (2, "ctype"), (4, "load"), (1, "absload"),
                             (1, "pkgload"), (1, "retarget"), (2, "gc")],
                            "op")
            dt = ch.weighted([(3, 1.0), (2, 0.0), (2, 0.001), (1, 3600.0),
                              (1, -5.0), (1, 86400.0 * 400), (1, -0.001)],
                             "dt")
            if k == "write":
                p = ch.pick(all_paths)
                callee = None
                if p == caller:
                    callee = files[caller]["callee"]
                ops.append(["write", p, newv(p, callee), dt,
                            ch.pick(["atomic", "atomic", "inplace"])])
            elif k == "touch":
                ops.append(["touch", ch.pick(all_paths), dt])
            elif k == "delete":
                ops.append(["delete", ch.pick(all_paths)])
            elif k in ("render", "names", "ctype"):
                ops.append([k, ch.choose(len(objects))])
            elif k == "use":
                ops.append(["use", ch.choose(len(objects)), ch.choose(4)])
            elif k == "load":
                nme = ch.pick(names)
                spec = ch.weighted([
                    (6, nme), (1, " " + nme + " "),
                    (2, nme.split(".")[0] or nme),
                    (1, "./" + nme), (1, "./" + (nme.split(".")[0] or nme)),
                    (1, ch.pick(dirs) + "/" + nme),
                    (1, "missing.pt")], "spec")
                ops.append(["load", spec, ch.pick(["render", "render",
                                                   "names", "none"]),
                            ch.weighted([(4, None), (1, "text"),
                                         (1, "xml")])])
                if ch.coin(0.2):
                    # through a plain chameleon.loader.TemplateLoader
                    # bound to a template class (loader.bind(cls))
                    ops[-1].append("bind")
                    ops[-1][3] = ch.pick(["text", "xml"])
            elif k == "gc":
                ops.append(["gc"])
            elif k == "retarget":
                # assign template.filename: the object must follow the
                # other file from now on
                ops.append(["retarget", ch.choose(len(objects)),
                            ch.pick(all_paths)])
            elif k == "pkgload":
                ops.append(["pkgload", ch.pick([
                    "chameleon.tests:inputs/hello_world.pt",
                    "hello_world.pt", "chameleon.tests:inputs/hello_world.txt"
                ])])
            else:
                ops.append(["absload", ch.pick(all_paths)])
        faults = {}
        if ch.coin(0.35):
            for _ in range(1 + ch.choose(2)):
                i = ch.choose(len(ops))
                if ops[i][0] in ("render", "names", "use", "ctype", "load"):
                    faults[str(i)] = {"kind": ch.pick(["eio", "eio", "enoent"]),
                                      "nth": 1 + ch.choose(2)}
        # an asynchronous exception (Ctrl-C, a failed allocation) lands in
        # the middle of a use: at the n-th line executed inside chameleon's
        # template / loader modules or the generated code
        def insert_op(pos, op):
            ops.insert(pos, op)
            moved = {(str(int(key) + 1) if int(key) >= pos else key): val
                     for key, val in faults.items()}
            faults.clear()
            faults.update(moved)

        if ch.coin(0.4):
            for _ in range(1 + ch.choose(2)):
                i = ch.choose(len(ops))
                if ops[i][0] in ("render", "names", "use", "ctype", "load") \
                        and str(i) not in faults:
                    mode = ch.weighted([(5, "access"), (3, "distinct"),
                                        (2, "raw")], "imode")
                    if ops[i][0] != "load" and ch.coin(0.6) and \
                            objects[ops[i][1]]["path"] != caller:
                        # the use has something to reload ...
                        o = objects[ops[i][1]]
                        insert_op(i, ["write", o["path"],
                                      newv(o["path"], allow_broken=False),
                                      1.0, "atomic"])
                        i += 1
                        # ... and the object is used again afterwards
                        k2 = ch.pick(["render", "names", "use"])
                        if ch.coin(0.5):
                            # ... the very next use already finds a further
                            # version that defines fewer macros (whatever
                            # the interrupted reload left behind must go;
                            # a use of the interrupted version in between
                            # would complete that reload first)
                            v_ = newv(o["path"], allow_broken=False)
                            v_["macros"] = v_["macros"][:ch.choose(2)]
                            insert_op(i + 1, ["write", o["path"], v_, 1.0,
                                              "atomic"])
                            insert_op(i + 2, ["names", ops[i][1]])
                        else:
                            insert_op(min(i + 1 + ch.choose(2), len(ops)),
                                      [k2, ops[i][1]] +
                                      ([ch.choose(4)] if k2 == "use" else []))
                    faults[str(i)] = {
                        "kind": "interrupt", "mode": mode,
                        "nth": 1 + ch.choose(
                            36 if mode == "access" else
                            25 if mode == "creturn" else
                            ch.pick([12, 60, 250])),
                        "exc": ch.pick(["KeyboardInterrupt", "MemoryError",
                                        "SystemExit", "KeyboardInterrupt"])}
        # another process rewrites an object's file *while* a use of that
        # object is under way (just before its nth file-system call)
        if ch.coin(0.3):
            for _ in range(1 + ch.choose(2)):
                i = ch.choose(len(ops))
                if ops[i][0] in ("render", "names", "use", "ctype") and \
                        str(i) not in faults:
                    o = objects[ops[i][1]]
                    if o["path"] == caller:
                        continue
                    if ch.coin(0.6):
                        # the use has something to reload
                        insert_op(i, ch.pick([
                            ["touch", o["path"], 1.0],
                            ["write", o["path"],
                             newv(o["path"], allow_broken=False), 1.0,
                             "atomic"]]))
                        i += 1
                    faults[str(i)] = {
                        "kind": "midwrite", "nth": 1 + ch.choose(5),
                        "v": newv(o["path"], allow_broken=ch.coin(0.3)),
                        "dt": ch.weighted([(5, 1.0), (2, 0.001), (1, 0.0),
                                           (1, -5.0)])}
                    if ch.coin(0.7):
                        # ... and the object is used again afterwards
                        insert_op(min(i + 1 + ch.choose(2), len(ops)),
                                  [ch.pick(["render", "names", "ctype"]),
                                   ops[i][1]])
        pkg_path = ch.coin(0.3)
        extra = {}
        if caller and ch.coin(0.25):
            # the documented switch: load: then walks the search path only
            extra["prepend_relative"] = False
        if pkg_path and ch.coin(0.4):
            # the package-relative entry comes first (names it does not
            # have are found further along) ...
            extra["pkg_first"] = True
        if ch.coin(0.2):
            # ... and the directories are given relative to the directory
            # the process runs in
            extra["rel_search"] = True
        sp_ = None if extra.get("rel_search") else \
            ch.weighted([(7, None), (2, "rel"), (1, "home")], "spell")
        if sp_:
            # the object's path as a user spells it - relative to the
            # directory the process is in when it makes the object (it is
            # elsewhere by the time it first uses it), or under ~
            extra["spell"] = sp_
        return {**extra, "dirs": dirs, "search_path": search, "pkg_path": pkg_path,
                "default_extension": default_ext, "auto_reload": auto,
                "files": files, "objects": objects, "ops": ops,
                "faults": faults, "format": "xml"}

    # -- reference ---------------------------------------------------------------
    def ref_render(self, world: World, v: dict, child_v: dict | None,
                   what: str, arg=None, fmt=None) -> list:
        """Outcome of a fresh instance on a private copy of version v."""
        key = canonical([v, child_v, what, arg, fmt])
        r = self._ref_cache.get(key)
        if r is not None:
            return r
        if len(self._ref_cache) > 3000:
            self._ref_cache.clear()
        with world.harness():
            n = len(os.listdir(world.path("ref")))
            d = world.path("ref", "r%d" % n)
            os.makedirs(d)
            with real.open(os.path.join(d, "t.pt"), "w") as f:
                f.write(content(v))
            if child_v is not None:
                with real.open(os.path.join(d, v["callee"]), "w") as f:
                    f.write(content(child_v))
            try:
                cls = self.zt.PageTextTemplateFile if fmt == "text" \
                    else self.zt.PageTemplateFile
                t = cls(os.path.join(d, "t.pt"))
                if what == "render":
                    r = ["ok", t.render(x="X<1>")]
                elif what == "names":
                    r = ["ok", sorted(t.macros.names)]
                elif what == "ctype":
                    t.cook_check()
                    r = ["ok", t.content_type]
                elif what == "use":
                    c = self.zt.PageTemplate(
                        '<div metal:use-macro="t.macros[\'m%d\']">c</div>' % arg)
                    r = ["ok", c.render(t=t, x="X<1>")]
                else:
                    raise AssertionError(what)
            except Exception as e:      # noqa: BLE001
                r = ["exc", type(e).__name__]
        self._ref_cache[key] = r
        return r

    # -- execution ---------------------------------------------------------------
    def run(self, case: dict) -> dict:
        self.quiesce()
        log = EventLog()
        world = World(log, plan={}, tag="c16")
        world.read_events = True
        world.activate()
        cwd, home = os.getcwd(), os.environ.get("HOME")
        try:
            return self._run(case, world, log)
        finally:
            os.chdir(cwd)
            if home is None:
                os.environ.pop("HOME", None)
            else:
                os.environ["HOME"] = home
            world.close()

    def _run(self, case: dict, world: World, log: EventLog) -> dict:
        zt = self.zt
        root = world.path("site")
        os.makedirs(world.path("ref"))
        for d in case["dirs"]:
            os.makedirs(os.path.join(root, d))
        clock = [T0 * NS]
        span = [clock[0], clock[0]]
        fsm: dict[str, tuple] = {}      # path -> (version, mtime_ns)
        violations: list[dict] = []
        cover: set[str] = set()
        stats = {"fired": {}, "skipped": {}, "ops": 0, "reloads": 0}

        def full(p):
            return os.path.join(root, p)

        def stamp(p, dt):
            clock[0] += int(dt * NS)
            clock[0] -= clock[0] % 1000
            span[0] = min(span[0], clock[0])
            span[1] = max(span[1], clock[0])
            real.utime(full(p), ns=(clock[0], clock[0]))
            return clock[0]

        def dwrite(p, v, dt, how="atomic"):
            with world.harness():
                if how == "inplace":
                    with real.open(full(p), "w") as f:
                        f.write(content(v))
                else:
                    tmp = full(p) + ".new"
                    with real.open(tmp, "w") as f:
                        f.write(content(v))
                    real.replace(tmp, full(p))
                m = stamp(p, dt)
            fsm[p] = (v, m)

        for p, v in sorted(case["files"].items()):
            dwrite(p, v, 1.0)

        server = world.new_proc("S")
        counting = self.counting
        counting.clear()
        self.serials[0] = 0
        serial_of = self.serial_of

        objs: list[Obj] = []
        spell = case.get("spell")
        if spell == "rel":
            os.chdir(root)
        elif spell == "home":
            os.environ["HOME"] = root
        with world.as_proc(server):
            for o in case["objects"]:
                ob = Obj(o["path"], o["auto_reload"])
                ob.prepend = case.get("prepend_relative", True)
                ob.real = self.CountingFile(
                    {"rel": o["path"], "home": "~/" + o["path"]}.get(
                        spell, full(o["path"])),
                    auto_reload=o["auto_reload"],
                    search_path=[os.path.join(root, d)
                                 for d in case["search_path"]],
                    **({"prepend_relative_search_path": False}
                       if case.get("prepend_relative") is False else {}))
                objs.append(ob)
            if case.get("rel_search"):
                os.chdir(root)
            pkg_ = ["chameleon.tests:inputs"] if case.get("pkg_path") else []
            loader = self.TemplateLoader(
                (pkg_ if case.get("pkg_first") else []) +
                [d if case.get("rel_search") else os.path.join(root, d)
                 for d in case["search_path"]] +
                ([] if case.get("pkg_first") else pkg_),
                default_extension=case["default_extension"],
                auto_reload=case["auto_reload"],
                formats={"xml": self.CountingFile,
                         "text": self.CountingText})
            from chameleon.loader import TemplateLoader as BaseLoader
            base_loader = BaseLoader(
                [os.path.join(root, d) for d in case["search_path"]],
                default_extension=case["default_extension"],
                auto_reload=case["auto_reload"])
        if spell == "rel":
            os.chdir(world.path("ref"))
        caller_path = next((p_ for p_, v_ in case["files"].items()
                            if v_.get("callee")), None)
        loaded: dict[str, Obj] = {}           # spec -> model object
        loaded_pkg: dict[str, object] = {}

        # ---- model ----------------------------------------------------------
        def broken(v, fmt) -> bool:
            """Does this version fail to compile?  Asked of an independent
            instance (a 'text' template whose body starts with '<' is parsed
            as markup, so the flavour alone does not tell)."""
            r_ = self.ref_render(world, v, None, "names", None, fmt)
            return r_[0] == "exc" and r_[1] not in ("KeyError",)

        def mtime_of(p):
            e = fsm.get(p)
            return e[1] / NS if e is not None else 0

        def model_use(ob: Obj):
            """Applies the reload rule.  Returns (expected_versions, exc):
            expected_versions is the list of acceptable compiled versions
            after this use (None in exc position means no exception)."""
            cur = fsm.get(ob.path)
            accept = []
            ob.pre_version = ob.version
            ob.pre_seen = ob.seen
            if ob.auto_reload or ob.seen is None:
                m = mtime_of(ob.path)
                if ob.seen is None or m != ob.seen:
                    if ob.auto_reload:
                        ob.seen = m
                    else:
                        ob.seen = -1
                    if ob.version is not None or ob.ever_cooked:
                        stats["reloads"] += 1
                    ob.version = None
                elif cur is not None and ob.version is not None and \
                        cur[0] != ob.version:
                    # rewritten within the same mtime tick: undetectable by
                    # any mtime scheme - either version is acceptable
                    accept.append(cur[0])
                    cover.add("same-mtime-rewrite")
            if ob.version is None:
                if cur is None:
                    return None, "OSError"
                ob.compiles += 1
                if broken(cur[0], ob.fmt):
                    return None, "TemplateError"
                ob.version = cur[0]
                ob.ever_cooked = True
            return [ob.version] + accept, None

        def child_of(ob: Obj, versions):
            """The callee object of a caller (created on first evaluation of
            its load: expression, then pinned)."""
            v = versions[0]
            spec = v.get("callee")
            if not spec:
                return None, None
            ch_ = ob.children.get(spec)
            if ch_ is None:
                # relative to the caller's directory first, then the path
                cand = ([os.path.dirname(ob.path)]
                        if ob.prepend else []) + \
                    list(case["search_path"])
                for d in cand:
                    if (d + "/" + spec) in fsm:
                        ch_ = Obj(d + "/" + spec, ob.auto_reload)
                        break
                else:
                    return None, "ValueError"
                ob.children[spec] = ch_
            return ch_, None

        def resolve(spec: str):
            s = spec.strip()
            ext = case["default_extension"]
            if ext is not None and "." not in s:
                s += "." + ext.lstrip(".")
            if os.path.isabs(s):
                return s[len(root) + 1:] if s.startswith(root) else s, None
            for d in case["search_path"]:
                cand = os.path.normpath(d + "/" + s)
                if cand in fsm:
                    return cand, None
                # directories are files too for os.path.exists
            return None, "ValueError"

        # ---- run the history -------------------------------------------------
        intr = {"it": None}

        def outcome(fn):
            it = intr["it"]
            intr["it"] = None
            if it is not None:
                it.count = 0
                self.trace.arm_interrupt(it)
            try:
                try:
                    return ["ok", fn()]
                finally:
                    # (before the harness formats anything)
                    self.trace.arm_interrupt(None)
            except (Exception, KeyboardInterrupt, SystemExit) as e:  # noqa
                return ["exc", type(e).__name__, norm_msg(str(e))[:200],
                        [c.__name__ for c in type(e).__mro__]]
            finally:
                if it is not None:
                    if it.fired is not None:
                        stats["fired"]["interrupt"] = \
                            stats["fired"].get("interrupt", 0) + 1
                        fired_intr.append(it)
                        cover.add("interrupt:" + it.fired[1])
                    else:
                        # not reached in this call: it stays pending for
                        # the next call of the same operation
                        intr["it"] = it

        fired_intr: list = []

        want_version: dict[int, dict] = {}

        def adopt(ob: Obj, got, wants):
            """After a clean use of an object whose state was ambiguous,
            settle on the version that was actually served."""
            return

        def check(i, op, got, wants, faulted):
            log.add("op", i, norm_msg(canonical(op))[:200],
                    canonical(got[:2])[:400])
            if faulted and got[0] == "exc" and "OSError" in got[3]:
                # the op that met the fault may fail with it
                cover.add("relaxed-oserror")
                return
            if faulted and got[0] == "exc" and fired_intr and \
                    fired_intr[-1].name in got[3]:
                # ... or with the asynchronous exception it was sent
                cover.add("interrupted")
                return
            if got[0] == "ok":
                ok = any(w[0] == "ok" and w[1] == got[1] for w in wants)
            else:
                ok = any(w[0] == "exc" and w[1] in got[3] for w in wants)
            if ok:
                return
            kind = "stale-or-wrong-content"
            if all(w[0] == "exc" for w in wants):
                kind = "wrong-outcome"
            if op[0] == "names":
                kind = "stale-macros"
            elif op[0] == "use":
                kind = "stale-macro-body"
            elif op[0] == "ctype":
                kind = "stale-content-type"
            violations.append(self._v(
                kind, i, op,
                f"got {str(got[:3])[:300]} but the acceptable outcomes "
                f"(independent instances of the expected version) are "
                f"{str([w[:2] for w in wants])[:400]}"))

        def expected_for(ob: Obj, what, arg=None):
            """All acceptable outcomes: ['ok', value] / ['exc', class]."""
            versions, exc = model_use(ob)
            if exc:
                return [["exc", exc]]
            wants = []
            for v in versions:
                n0 = len(wants)
                if v.get("callee") and what == "render":
                    ch_, cexc = child_of(ob, [v])
                    if cexc:
                        wants.append(["exc", cexc])
                        continue
                    cvs, cexc = model_use(ch_)
                    if cexc:
                        wants.append(["exc", cexc])
                        continue
                    for cv in cvs:
                        wants.append(self.ref_render(world, v, cv, what, arg,
                                                     ob.fmt))
                    for w in wants[n0:]:
                        want_version[id(w)] = v
                    continue
                wants.append(self.ref_render(world, v, None, what, arg,
                                             ob.fmt))
                want_version[id(wants[-1])] = v
            return wants

        def tainted_use(i, op, ob: Obj, got, what, arg, faulted) -> bool:
            """Handles a use of a tainted object; True if it was one."""
            if not ob.tainted:
                return False
            log.add("op", i, norm_msg(canonical(op))[:200], "tainted",
                    got[0])
            m = mtime_of(ob.path)
            cur = fsm.get(ob.path)
            if ob.taint_pairs is not None and (faulted or ob.children):
                self._pairs_to_sets(ob)
            if ob.taint_pairs is not None:
                # every state is a (recorded mtime, version) pair: a state
                # whose mtime equals the file's serves its version, every
                # other state reloads the file as it is now
                keep = [pr for pr in ob.taint_pairs
                        if pr[0] == m and pr[1] is not None]
                reloads = len(keep) < len(ob.taint_pairs)
                wants = [self.ref_render(world, pr[1], None, what, arg,
                                         ob.fmt) for pr in keep]
                after = list(keep)
                if reloads:
                    if cur is None:
                        wants.append(["exc", "OSError"])
                        after.append((m, None))
                    elif broken(cur[0], ob.fmt):
                        wants.append(["exc", "TemplateError"])
                        after.append((m, None))
                    else:
                        wants.append(self.ref_render(world, cur[0], None,
                                                     what, arg, ob.fmt))
                        after.append((m, cur[0]))
                check(i, op, got, wants, False)
                uniq_ = []
                for pr in after:
                    if pr not in uniq_:
                        uniq_.append(pr)
                ob.taint_pairs = uniq_
                cover.add("tainted-use-checked")
                if len(uniq_) == 1:
                    cover.add("recovered-after-midwrite")
                    ob.tainted = False
                    ob.taint_pairs = None
                    ob.seen, ob.version = uniq_[0]
                    ob.ever_cooked = True
                    ob.children.clear()
                    ob.compiles = counting.get(serial_of(ob.real), 0)
                    ob.count_unknown = False
                return True
            has_callee = bool(ob.children) or bool(
                cur is not None and cur[0].get("callee")) or any(
                v.get("callee") for v in ob.taint_versions)
            if faulted or has_callee:
                ob.taint_mtimes.add(m)
                if cur is not None:
                    ob.taint_versions.append(cur[0])
                cover.add("tainted-use-skipped")
                if faulted:
                    self._uncertain(ob, mtime_of, fsm)
                return True
            # Whatever state the fault left the real object in, it now
            # either still holds a version it may have compiled since just
            # before the fault, or it (re)loads the file as it is now.
            wants = []
            versions = list(ob.taint_versions)
            fresh = ob.auto_reload and cur is not None and \
                m not in ob.taint_mtimes
            if fresh:
                versions = []
            if cur is not None and cur[0] not in versions:
                versions.append(cur[0])
            for v in versions:
                if broken(v, ob.fmt):
                    wants.append(["exc", "TemplateError"])
                else:
                    wants.append(self.ref_render(world, v, None, what, arg,
                                                 ob.fmt))
            if cur is None:
                wants.append(["exc", "OSError"])
            check(i, op, got, wants, False)
            ob.taint_mtimes.add(m)
            if cur is not None:
                ob.taint_versions.append(cur[0])
            if fresh:
                # recovery point: every possible state had to reload
                cover.add("recovered-after-fault")
                ob.tainted = False
                ob.seen = m
                ob.version = None if broken(cur[0], ob.fmt) else cur[0]
                ob.ever_cooked = True
                ob.children.clear()
                ob.compiles = counting.get(serial_of(ob.real), 0)
                ob.count_unknown = False
            else:
                cover.add("tainted-use-checked")
            return True

        def count_check(i, op, ob: Obj):
            real_n = counting.get(serial_of(ob.real), 0)
            if ob.count_unknown:
                ob.count_unknown = False
                ob.compiles = real_n
                return
            if real_n != ob.compiles:
                violations.append(self._v(
                    "recompile-count", i, op,
                    f"template {ob.path} was compiled {real_n} times, the "
                    f"mtime rule requires {ob.compiles}"))
                ob.compiles = real_n     # resynchronise, report once

        for i, op in enumerate(case["ops"]):
            stats["ops"] += 1
            k = op[0]
            f = case["faults"].get(str(i))
            world.plan.clear()
            world.sticky.clear()
            fired_before = sum(world.fired.values())
            n_intr = len(fired_intr)
            if intr["it"] is not None:
                intr["it"] = None
                stats["skipped"]["interrupt"] = \
                    stats["skipped"].get("interrupt", 0) + 1
            if k == "write":
                dwrite(op[1], op[2], op[3], op[4])
                log.add("op", i, "write", op[1], op[2]["tag"], op[3])
                continue
            if k == "touch":
                if op[1] in fsm:
                    with world.harness():
                        m = stamp(op[1], op[2])
                    fsm[op[1]] = (fsm[op[1]][0], m)
                log.add("op", i, "touch", op[1], op[2])
                continue
            if k == "delete":
                if op[1] in fsm:
                    with world.harness():
                        real.remove(full(op[1]))
                    del fsm[op[1]]
                log.add("op", i, "delete", op[1])
                continue
            if k == "gc":
                # The caller keeps none of the templates it got from the
                # loader, and the collector runs (automatic collection is
                # off in the simulation: *when* it runs is a seeded event).
                # Whatever is loaded again afterwards must be the instance
                # that was returned before, in the state it was in.
                for lo_ in loaded.values():
                    lo_.real = None
                t = got = c = ob = lo = None      # noqa: F841
                with world.harness():
                    import gc
                    gc.collect()
                cover.add("gc")
                log.add("op", i, "gc")
                continue
            if k == "retarget":
                ob = objs[op[1]]
                cur = fsm.get(ob.path)
                if ob.children or ob.tainted or op[2] == caller_path or \
                        ob.path == caller_path:
                    log.add("op", i, "retarget-skipped")
                    continue
                with world.as_proc(server):
                    ob.real.filename = full(op[2])
                ob.path = op[2]
                ob.seen = None
                ob.version = None
                cover.add("retarget")
                log.add("op", i, "retarget", op[1], op[2])
                continue
            if k == "pkgload":
                # package-relative specs (read-only: the repository's own
                # chameleon.tests package)
                spec = op[1]
                from ..core import REPO_SRC
                with world.as_proc(server):
                    got = outcome(lambda: loader.load(
                        spec, "text" if spec.endswith(".txt") else None))
                    name = spec.split(":", 1)[-1].split("/")[-1]
                    real_path = os.path.join(REPO_SRC, "chameleon", "tests",
                                             "inputs", name)
                    resolvable = ":" in spec or case.get("pkg_path")
                    if not resolvable:
                        check(i, op, got, [["exc", "ValueError"]], False)
                        continue
                    if got[0] != "ok":
                        violations.append(self._v(
                            "loader-resolution", i, op,
                            f"package-relative load raised {got[1:3]}"))
                        continue
                    t = got[1]
                    prev = loaded_pkg.get(spec)
                    if prev is not None and prev is not t:
                        violations.append(self._v(
                            "loader-identity", i, op,
                            "a different instance than the previous load "
                            "of the same package-relative name"))
                    loaded_pkg[spec] = t
                    got2 = outcome(lambda: t.render())
                    with world.harness():
                        cls = zt.PageTextTemplateFile \
                            if spec.endswith(".txt") else zt.PageTemplateFile
                        want = outcome(lambda: cls(real_path).render())
                    log.add("op", i, "pkgload", spec, got2[0])
                    cover.add("pkgload-ok")
                    if got2[:2] != want[:2]:
                        violations.append(self._v(
                            "loader-resolution", i, op,
                            f"{spec!r} rendered {str(got2[:2])[:200]}, the "
                            f"package's file renders {str(want[:2])[:200]}"))
                continue
            mid = None
            if f is not None and f["kind"] == "midwrite":
                ob = objs[op[1]] if k in ("render", "names", "ctype",
                                          "use") else None
                cur = fsm.get(ob.path) if ob is not None else None
                if ob is not None and not ob.tainted and not ob.children \
                        and ob.path != caller_path and \
                        not (cur is not None and cur[0].get("callee")):
                    mid = {"fired": False, "before": cur}

                    def _act(ob=ob, f=f, mid=mid):
                        mid["fired"] = True
                        dwrite(ob.path, f["v"], f["dt"])
                    world.armed[server.name] = {
                        "kind": "midwrite", "nth": f["nth"], "kinds": None,
                        "action": _act}
                f = None
            elif f is not None and f["kind"] == "interrupt":
                import builtins
                it_ = self.trace.Interrupt(
                    f["nth"], getattr(builtins, f["exc"]),
                    distinct=f.get("mode") == "distinct",
                    access=f.get("mode") == "access",
                    creturn=f.get("mode") == "creturn")
                it_.name = f["exc"]
                intr["it"] = it_
            else:
                self._arm(world, server, f)
            with world.as_proc(server):
                if k in ("render", "names", "ctype", "use"):
                    ob = objs[op[1]]
                    t = ob.real
                    if k == "render":
                        got = outcome(lambda: t.render(x="X<1>"))
                        what, arg = "render", None
                    elif k == "names":
                        got = outcome(lambda: sorted(t.macros.names))
                        what, arg = "names", None
                    elif k == "ctype":
                        def _ct():
                            t.cook_check()
                            return t.content_type
                        got = outcome(_ct)
                        what, arg = "ctype", None
                    else:
                        c = zt.PageTemplate(
                            '<div metal:use-macro="t.macros[\'m%d\']">c</div>'
                            % op[2])
                        got = outcome(lambda: c.render(t=t, x="X<1>"))
                        what, arg = "use", op[2]
                    faulted = sum(world.fired.values()) > fired_before \
                        or len(fired_intr) > n_intr
                    if mid is not None and mid["fired"]:
                        # The file was rewritten while this use was under
                        # way: the use may serve the version it already
                        # held, the one before or the one after the write.
                        # What matters is afterwards: the object may have
                        # recorded the old mtime (with either body) or have
                        # looked only after the write - it cannot hold the
                        # new mtime together with the old body.
                        v0 = mid["before"]
                        cands = []
                        for v in ([ob.version] if ob.version else []) + \
                                ([v0[0]] if v0 else []) + [fsm[ob.path][0]]:
                            if v not in cands:
                                cands.append(v)
                        wants = []
                        for v in cands:
                            if broken(v, ob.fmt):
                                wants.append(["exc", "TemplateError"])
                            else:
                                wants.append(self.ref_render(
                                    world, v, None, what, arg, ob.fmt))
                        if v0 is None:
                            wants.append(["exc", "OSError"])
                        check(i, op, got, wants, False)
                        ob.taint_mtimes = {0, ob.seen,
                                           v0[1] / NS if v0 else 0}
                        ob.taint_versions = cands
                        ob.tainted = True
                        ob.count_unknown = True
                        cover.add("midwrite")
                        if ob.auto_reload:
                            def ok_(v):
                                return None if v is None or \
                                    broken(v, ob.fmt) else v
                            vn, mn = fsm[ob.path]
                            prs = [(mn / NS, ok_(vn))]
                            if v0 is None:
                                prs += [(0, ok_(vn)), (0, None)]
                            else:
                                prs += [(v0[1] / NS, ok_(v0[0])),
                                        (v0[1] / NS, ok_(vn))]
                                if v0[1] / NS == ob.seen:
                                    prs.append((ob.seen, ob.version))
                            if mn / NS == ob.seen:
                                # (the new content came with the very
                                # mtime the object has on record - a clock
                                # that went back and forth: looking after
                                # the write it had no reason to reload)
                                prs.append((ob.seen, ob.version))
                            ob.taint_pairs = []
                            for pr in prs:
                                if pr not in ob.taint_pairs:
                                    ob.taint_pairs.append(pr)
                    elif tainted_use(i, op, ob, got, what, arg, faulted):
                        pass
                    else:
                        wants = expected_for(ob, what, arg)
                        check(i, op, got, wants, faulted)
                        if faulted:
                            self._uncertain(ob, mtime_of, fsm)
                        else:
                            count_check(i, op, ob)
                elif k in ("load", "absload"):
                    spec = op[1] if k == "load" else full(op[1])
                    mode = op[2] if k == "load" else "render"
                    fmt = op[3] if k == "load" and len(op) > 3 else None
                    bound = k == "load" and len(op) > 4 and op[4] == "bind"
                    if bound:
                        cls_ = self.CountingText if fmt == "text" \
                            else self.CountingFile
                        got = outcome(lambda: base_loader.bind(cls_)(spec))
                    else:
                        got = outcome(lambda: loader.load(spec, fmt))
                    faulted = sum(world.fired.values()) > fired_before \
                        or len(fired_intr) > n_intr
                    # (same name, other format = another template; the
                    # bound loader is another loader with its own registry)
                    lkey = (spec, "text" if fmt == "text" else "xml", bound)
                    lo = loaded.get(lkey)
                    if lo is None:
                        path, exc = resolve(spec)
                        if exc:
                            check(i, op, got, [["exc", exc]], faulted)
                            continue
                        lo = Obj(path, case["auto_reload"])
                        lo.fmt = "text" if fmt == "text" else None
                        if got[0] == "ok":
                            lo.real = got[1]
                            lo.serial = serial_of(got[1])
                            loaded[lkey] = lo
                    if got[0] != "ok":
                        if not faulted:
                            violations.append(self._v(
                                "loader-resolution", i, op,
                                f"load({spec!r}) raised {got[1:3]} but "
                                f"{lo.path} matches on the search path"))
                        continue
                    t = got[1]
                    want_fn = full(lo.path) if not os.path.isabs(lo.path) \
                        else lo.path
                    if serial_of(t) != lo.serial:
                        violations.append(self._v(
                            "loader-identity", i, op,
                            f"load({spec!r}) returned a different instance "
                            "than the previous load of the same name"))
                        lo.serial = serial_of(t)
                    lo.real = t
                    if os.path.normpath(str(t.filename)) != want_fn:
                        violations.append(self._v(
                            "loader-resolution", i, op,
                            f"load({spec!r}) resolved to "
                            f"{world.rel(str(t.filename))}, first match on "
                            f"the search path is {world.rel(want_fn)}"))
                        continue
                    cover.add("load-ok")
                    want_cls = self.CountingText if fmt == "text" \
                        else self.CountingFile
                    if type(t) is not want_cls:
                        violations.append(self._v(
                            "loader-format", i, op,
                            f"load({world.rel(spec)!r}, {fmt!r}) returned a "
                            f"{type(t).__name__}"))
                        continue
                    log.add("op", i, "load", world.rel(spec), world.rel(str(t.filename)))
                    if mode == "none":
                        continue
                    fired_before = sum(world.fired.values())
                    if mode == "render":
                        got = outcome(lambda: t.render(x="X<1>"))
                    else:
                        got = outcome(lambda: sorted(t.macros.names))
                    faulted = faulted or len(fired_intr) > n_intr or \
                        sum(world.fired.values()) > fired_before
                    opd = [k, world.rel(spec), mode]
                    if tainted_use(i, opd, lo, got, mode, None, faulted):
                        pass
                    else:
                        wants = expected_for(lo, mode)
                        check(i, opd, got, wants, faulted)
                        if faulted:
                            self._uncertain(lo, mtime_of, fsm)
                        else:
                            count_check(i, op, lo)
            world.armed.clear()

        # liveness: faults are over; one forward tick and one use must give
        # the latest version of every object's file
        world.plan.clear()
        world.armed.clear()
        intr["it"] = None
        with world.as_proc(server):
            for j, ob in enumerate(objs + list(loaded.values())):
                if ob.real is None or not ob.auto_reload or \
                        ob.path not in fsm or os.path.isabs(ob.path):
                    continue
                with world.harness():
                    m = stamp(ob.path, 2.0)
                fsm[ob.path] = (fsm[ob.path][0], m)
                t = ob.real
                got = outcome(lambda: sorted(t.macros.names))
                if tainted_use("final-%d" % j, ["names", ob.path], ob, got,
                               "names", None, False):
                    continue
                wants = expected_for(ob, "names")
                check("final-%d" % j, ["names", ob.path], got, wants, False)

        for kk, vv in world.fired.items():
            stats["fired"][kk] = vv
        kinds = sorted({o[0] for o in case["ops"]})
        nontrivial = []
        if stats["reloads"] or "load-ok" in cover:
            nontrivial.append(short_hash([case["ops"], case["files"],
                                          case["search_path"]]))
        seen = set()
        uniq = []
        for v in violations:
            if v["sig"] not in seen:
                seen.add(v["sig"])
                uniq.append(v)
        return {"violations": uniq, "digest": log.digest(),
                "events": world.total_events, "stats": stats,
                "cover": sorted(cover | {"op:" + k for k in kinds}),
                "nontrivial": nontrivial,
                "sim_time": (span[1] - span[0]) / NS,
                "summary": {"ops": len(case["ops"]),
                            "reloads": stats["reloads"]}}

    def _arm(self, world: World, server, f) -> None:
        """Place the op's fault at the nth read-side call from now."""
        world.armed.clear()
        if f is None:
            return
        kinds = {"eio": {"open-read"},
                 "enoent": {"getmtime", "open-read"}}[f["kind"]]
        world.armed[server.name] = {"kind": f["kind"], "nth": f["nth"],
                                    "kinds": kinds}

    def _uncertain(self, ob: Obj, mtime_of, fsm) -> None:
        """An op on ``ob`` met an injected fault.  What state the real
        object is in now depends on which call the fault hit (mtime read
        as 0, read failed, callee not created yet ...).  Instead of
        guessing one state, the object (and its callees) are *tainted*:
        the model remembers every mtime the object may have recorded and
        every version it may hold, and later uses accept exactly those
        (see tainted_use) until a recovery point - the first use at which
        the file exists with an mtime the object cannot have seen."""
        for o in [ob] + list(ob.children.values()):
            if o.taint_pairs is not None:
                self._pairs_to_sets(o)
            if not o.tainted:
                o.taint_mtimes = {0, o.seen}
                o.taint_versions = [o.version] if o.version else []
                if o.pre_version and o.pre_version not in o.taint_versions:
                    o.taint_versions.append(o.pre_version)
                if o.pre_seen is not None:
                    # (the fault may have struck before the object looked
                    # at its file at all: it then still has on record the
                    # time it had before this use)
                    o.taint_mtimes.add(o.pre_seen)
            o.tainted = True
            o.count_unknown = True
            o.taint_mtimes.add(mtime_of(o.path))
            cur = fsm.get(o.path)
            if cur is not None and cur[0] not in o.taint_versions:
                o.taint_versions.append(cur[0])

    @staticmethod
    def _pairs_to_sets(o: Obj) -> None:
        """Fall back from exact states to the looser set form."""
        o.taint_mtimes = {0} | {pr[0] for pr in o.taint_pairs}
        o.taint_versions = []
        for pr in o.taint_pairs:
            if pr[1] is not None and pr[1] not in o.taint_versions:
                o.taint_versions.append(pr[1])
        o.taint_pairs = None

    def _v(self, kind, i, op, detail) -> dict:
        return {"kind": kind, "sig": kind,
                "detail": f"op {i} {str(op)[:120]}: {detail}"}

    # -- minimisation ----------------------------------------------------------
    def shrink_candidates(self, case: dict):
        c = case
        n = len(c["ops"])
        # drop halves, then single ops (faults are keyed by op index: remap)
        def without(idx: set):
            d = copy.deepcopy(c)
            keep = [i for i in range(n) if i not in idx]
            d["ops"] = [c["ops"][i] for i in keep]
            remap = {old: new for new, old in enumerate(keep)}
            d["faults"] = {str(remap[int(k)]): v
                           for k, v in c["faults"].items() if int(k) in remap}
            return d
        if n > 3:
            yield without(set(range(n // 2, n)))
            yield without(set(range(0, n // 2)))
        for i in range(n - 1, -1, -1):
            yield without({i})
        for k in list(c["faults"]):
            d = copy.deepcopy(c)
            del d["faults"][k]
            yield d
        for oi in range(len(c["objects"]) - 1, -1, -1):
            if len(c["objects"]) > 1 and not any(
                    o[0] in ("render", "names", "ctype", "use", "retarget")
                    and o[1] >= oi
                    for o in c["ops"]):
                d = copy.deepcopy(c)
                del d["objects"][oi]
                yield d
        for p in sorted(c["files"]):
            if any(o["path"] == p for o in c["objects"]):
                continue
            d = copy.deepcopy(c)
            del d["files"][p]
            yield d
        for i, op in enumerate(c["ops"]):
            if op[0] == "write":
                v = op[2]
                if v.get("macros"):
                    d = copy.deepcopy(c)
                    d["ops"][i][2]["macros"] = v["macros"][:-1]
                    yield d
                if v.get("flavour") != "html":
                    d = copy.deepcopy(c)
                    d["ops"][i][2]["flavour"] = "html"
                    yield d
                if op[3] != 1.0:
                    d = copy.deepcopy(c)
                    d["ops"][i][3] = 1.0
                    yield d

    def sample(self, case: dict, res: dict) -> dict:
        return {"case": {"search_path": case["search_path"],
                         "default_extension": case["default_extension"],
                         "auto_reload": case["auto_reload"],
                         "files": sorted(case["files"]),
                         "objects": case["objects"],
                         "ops": [o if o[0] != "write" else
                                 ["write", o[1], o[2]["tag"],
                                  o[2]["flavour"], o[2]["macros"], o[3], o[4]]
                                 for o in case["ops"]],
                         "faults": case["faults"]},
                "outcome": res.get("summary"),
                "violations": [v["sig"] for v in res.get("violations", ())]}

    def evidence(self, agg: dict, tier: str) -> dict:
        cover = agg["cover"]
        return {
            "rule": (
                "histories of 4-26 operations over 1-3 files in 1-3 search "
                "directories drawn from the run seed: write version k "
                "(atomic replace or in place; html / xml declaration / meta "
                "content type / broken), touch, delete, render, list macros, "
                "use macro m from another template, content type, "
                "loader.load(name) with plain / padded / extension-less / "
                "dir-qualified / absolute / missing names, a caller pulling "
                "a template in with load:; in 30% of histories another "
                "process replaces an object's file just before the n-th "
                "file-system call (stat, open, read, close) of a use of "
                "that object; in 30% an asynchronous exception "
                "(KeyboardInterrupt / SystemExit / MemoryError) is delivered "
                "at the n-th line / distinct line / shared-state access line "
                "of a use, usually one that has something to reload; 'gc' is "
                "an operation too (the caller drops every template it got "
                "from the loader and the collector runs). Clock steps per "
                "write in {0, "
                "1ms, 1s, 1h, 400d, -1ms, -5s}. A history is non-trivial if "
                "at least one reload was required by the mtime rule or a "
                "loader resolution succeeded; distinct by hash of (ops, "
                "files, search path)."),
            "simulated_time": "%.0f simulated seconds of mtime span summed "
                              "over histories (clock steps from -5 s to "
                              "+400 days)" % agg.get("sim_time", 0.0),
            "distinct": {"op_kinds": [k for k in cover if k.startswith("op:")]},
            "probes": {k: v for k, v in cover.items()
                       if not k.startswith("op:")},
            "real_vs_stub": {
                "real": ["all of chameleon (PageTemplateFile, cook_check, "
                         "mtime, read, TemplateLoader, load: expression, "
                         "Macros)", "the kernel's file system on a scratch "
                         "directory (stat, open, rename)"],
                "stub": ["the clock: every mtime is stamped with os.utime "
                         "from a simulated clock", "read/stat faults (EIO, "
                         "ENOENT) injected at the os.path.getmtime / open "
                         "seam", "asynchronous exceptions raised from the "
                         "sys.monitoring LINE callback", "when the cyclic "
                         "garbage collector runs (automatic collection off)", "the deployer (between operations, and inside "
                         "one at a chosen file-system call)"]},
            "assumptions": [
                "a rewrite that leaves the mtime unchanged is undetectable "
                "by design: either version is accepted until the mtime "
                "next changes",
                "expected text comes from an independent PageTemplateFile "
                "built on a private copy of exactly the expected version"],
            "extra": {"ops_executed": agg["stats"].get("ops", 0),
                      "reloads_required": agg["stats"].get("reloads", 0)},
        }


CHECK = C16()
