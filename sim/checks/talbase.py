"""Common machinery of C04 / C12 / C13: a case is one generated template
plus a list of fault plans; every (template, plan) pair is rendered by the
real engine and by the reference interpreter and handed to the property's
oracle."""
from __future__ import annotations

import copy
import os
import shutil

from ..chamsim import import_chameleon
from ..core import Choices, EventLog, canonical, short_hash
from ..env import (CAUGHT_NAMES, NONEXC_NAMES, UNCAUGHT_NAMES, ZOO_CLASSES,
                   _args)
from ..gen import (Gen, all_probe_ids, gen_fault_plans, iter_elements,
                   serialise)
from .base import CheckBase
from .talcommon import run_model, run_real


class TalCheck(CheckBase):
    prop = "C00"
    level = "fault_enumeration"
    gen_opts: dict = {}
    plans_per_template = 40
    hold_exceptions = False
    async_interrupts = 0        # positions per template (0 = off)

    def warmup(self) -> None:
        import_chameleon()
        from chameleon.zpt import template as zt
        self.zt = zt
        if self.async_interrupts:
            from .. import trace
            trace.install()
            self.trace = trace

    def budget(self, tier: str) -> dict:
        b = super().budget(tier)
        b["det_seeds"] = 8 if tier != "thorough" else 40
        return b

    # -- generation ------------------------------------------------------------
    def gen(self, ch: Choices, tier: str) -> dict:
        g = Gen(ch, self.gen_opts)
        tmpl = g.template()
        return {"tmpl": tmpl, "plan_seed": ch.choose(1 << 30),
                "nplans": self.plans_per_template,
                # (statements spelled data-tal-* / data-metal-* / data-i18n-*)
                "data": ch.coin(0.15)}

    def make_plans(self, case: dict, tmpl: dict, template) -> list:
        """[(plan, handler_cfg)...]; explicit plans in the case win."""
        if "plans" in case:
            return [(p["plan"], p.get("handler")) for p in case["plans"]]
        ch = Choices(case["plan_seed"])
        base = run_real(template, tmpl, [], None)
        plans = gen_fault_plans(ch, tmpl, base["history"], case["nplans"])
        out = [([], None), ([], {})]
        base_sites = set(base["history"]) | {"T"}
        for p in plans:
            h = ch.weighted([(4, None), (4, {}),
                             (1, {"fail_with": "RuntimeError"})])
            out.append((p, h))
            # second stage: sites that are only reached *because of* the
            # faults of this plan (on-error fallback expressions, later
            # pipe alternatives, default branches) get faults of their own
            m = run_model(tmpl, p, h)
            new = sorted(k for k in set(m["history"]) - base_sites -
                         {f["site"] for f in p} if k != "T")
            if new and ch.coin(0.7):
                k = ch.pick(new)
                cls = ch.weighted([(3, ch.pick(UNCAUGHT_NAMES)),
                                   (2, ch.pick(CAUGHT_NAMES)),
                                   (1, ch.pick(NONEXC_NAMES))])
                out.append((p + [{"site": k, "n": ch.pick(["*", 0]),
                                  "do": ["raise", cls]}],
                            ch.pick([None, {}, {}])))
        return out

    # -- execution ---------------------------------------------------------------
    def compile(self, src: str, data: bool = False):
        if data:
            return self.zt.PageTemplate(src, enable_data_attributes=True)
        return self.zt.PageTemplate(src)

    def run(self, case: dict) -> dict:
        self.quiesce()
        log = EventLog()
        tmpl = case["tmpl"]
        tmpdir = None
        if "files" in tmpl:
            # several files in a scratch directory; main.pt is rendered
            import tempfile
            from ..fs import SCRATCH_BASE
            tmpdir = tempfile.mkdtemp(prefix="verif-%07d-tal-" % os.getpid(),
                                      dir=SCRATCH_BASE)
            occ, parts = [], []
            for name in sorted(tmpl["files"]):
                path = os.path.join(tmpdir, name)
                s_i, o_i = serialise(tmpl["files"][name],
                                     pretty=case.get("pretty", False),
                                     seps=case.get("seps", False),
                                     data=case.get("data", False),
                                     fname=path)
                if case.get("crlf"):
                    # (a Windows checkout: lines and columns stay the same)
                    s_i = s_i.replace("\n", "\r\n")
                for o in o_i:
                    if o["parent"] is not None:
                        o["parent"] += len(occ)
                occ += o_i
                parts.append("#### %s\n%s" % (name, s_i))
                with open(path, "w", encoding="utf-8", newline="") as f:
                    f.write(s_i)
            src = "\n".join(parts)
        else:
            src, occ = serialise(tmpl["tree"],
                                 pretty=case.get("pretty", False),
                                 seps=case.get("seps", False),
                                 data=case.get("data", False))
            if case.get("crlf"):
                src = src.replace("\n", "\r\n")
            if case.get("bom"):
                # a text that begins with U+FEFF (a file saved "with
                # signature", decoded by the application): one more
                # character on line 1, and the first one of the output
                src = "\ufeff" + src
                for o in occ:
                    for f_ in ("start", "end", "value_start", "part_start"):
                        if o.get(f_) is not None:
                            o[f_] += 1
                    if o["line"] == 1:
                        o["col"] += 1
        log.add("src", short_hash(src))
        try:
            if tmpdir is not None:
                template = self.zt.PageTemplateFile(
                    os.path.join(tmpdir, "main.pt"),
                    **({"enable_data_attributes": True}
                       if case.get("data") else {}))
                template.cook_check()
            else:
                template = self.compile(src, case.get("data", False))
        except Exception as e:      # noqa: BLE001 - generator/harness problem
            if tmpdir is not None:
                shutil.rmtree(tmpdir, ignore_errors=True)
            return {"harness": "generated template does not compile: %s: %s\n%s"
                    % (type(e).__name__, str(e)[:300], src),
                    "violations": [], "digest": log.digest(), "events": 0}
        try:
            return self._run_plans(case, tmpl, src, occ, template, log)
        finally:
            if tmpdir is not None:
                shutil.rmtree(tmpdir, ignore_errors=True)

    def _run_plans(self, case, tmpl, src, occ, template, log) -> dict:
        plans = self.make_plans(case, tmpl, template)
        violations: list[dict] = []
        nontrivial = []
        cover: set[str] = set()
        stats = {"fired": {}, "plans": 0, "probe_calls": 0}
        held: list = []       # exceptions kept alive across later renders
        shared: dict = {}     # exception instances raised more than once
        for pi, (plan, hcfg) in enumerate(plans):
            r = run_real(template, tmpl, plan, hcfg, shared)
            if r["raise"] is not None and self.hold_exceptions and \
                    len(held) < 80 and isinstance(r["raise"][1], Exception):
                try:
                    held.append((pi, plan, hcfg, r["raise"][1],
                                 str(r["raise"][1])))
                except Exception:       # noqa: BLE001 - the oracle's business
                    pass
            m = run_model(tmpl, plan, hcfg)
            if case.get("bom") and m.get("out") is not None:
                m["out"] = "\ufeff" + m["out"]
            stats["plans"] += 1
            stats["probe_calls"] += len(r["history"])
            for _, _, exc in r["raised"]:
                n = type(exc).__name__
                stats["fired"][n] = stats["fired"].get(n, 0) + 1
            vs = self.oracle(case, src, occ, tmpl, plan, hcfg, r, m, cover)
            log.add("plan", pi, len(r["history"]),
                    r["raise"][0] if r["raise"] else "-", len(vs))
            for v in vs:
                v["plan_index"] = pi
                v["plan"] = plan
                v["handler"] = hcfg
                if any(len(f["do"]) > 2 for f in plan):
                    # (an exception object that earlier renders raised
                    # too: the case is its list of plans)
                    v["needs_history"] = True
                violations.append(v)
            if self.is_nontrivial(plan, r, m):
                nontrivial.append(short_hash([src, plan, hcfg]))
        if self.async_interrupts and plans:
            for v in self.async_sweep(case, tmpl, template, plans[0], stats,
                                      cover, log):
                violations.append(v)
        # an exception is a record of *its* failure: what it says must not
        # change because other renders failed afterwards
        for pi, plan, hcfg, e, s0 in held:
            try:
                s1 = str(e)
            except Exception as e2:     # noqa: BLE001
                s1 = "str() raised %s" % type(e2).__name__
            if s1 != s0:
                violations.append({
                    "kind": "message-changed-later",
                    "sig": "message-changed-later",
                    "detail": f"the exception raised by plan {pi} said "
                              f"{s0[:300]!r} when it was raised and says "
                              f"{s1[:300]!r} after {len(plans) - pi - 1} "
                              f"further renders",
                    "plan_index": pi, "plan": plan, "handler": hcfg,
                    "needs_history": True})
                log.add("late", pi)
                break
        seen = set()
        uniq = []
        for v in violations:
            if v["sig"] not in seen:
                seen.add(v["sig"])
                uniq.append(v)
        return {"violations": uniq, "digest": log.digest(),
                "events": stats["probe_calls"], "stats": stats,
                "cover": sorted(cover), "nontrivial": nontrivial,
                "summary": {"source": src, "plans": len(plans),
                            "sites": len(tmpl["sites"])}}

    def async_sweep(self, case, tmpl, template, plan0, stats, cover,
                    log) -> list:
        """Ctrl-C / sys.exit() from a signal handler / a cancelled worker:
        KeyboardInterrupt or SystemExit delivered at the n-th distinct
        source line (or n-th line event) executed inside the generated
        code and chameleon's run-time modules during a render that would
        otherwise succeed.  render() must raise exactly that - it must not
        return, and nothing may turn it into (or replace it by) an
        Exception."""
        plan, hcfg = plan0
        trace = self.trace
        if "plans" not in case and case.get("plan_seed", 0) % 2:
            return []           # (every second template: it is not cheap)
        base = run_real(template, tmpl, plan, hcfg)
        if base["raise"] is not None:
            return []
        trace.listening(True)
        try:
            return self._async_sweep(case, tmpl, template, plan, hcfg, stats,
                                     cover, log)
        finally:
            trace.listening(False)

    def _async_sweep(self, case, tmpl, template, plan, hcfg, stats, cover,
                     log) -> list:
        trace = self.trace
        it = trace.Interrupt(10 ** 9, KeyboardInterrupt, distinct=True)
        trace.arm_interrupt(it)
        try:
            run_real(template, tmpl, plan, hcfg)
        finally:
            trace.arm_interrupt(None)
        counts = {"distinct": it.count, "raw": it.events}
        ch = Choices(case.get("plan_seed", 1) ^ 0x5eed)
        points = []
        nd = counts["distinct"]
        k = self.async_interrupts
        if "plans" in case:
            k = nd              # a pinned case (replay, minimisation): all
        if nd <= k:
            points += [("distinct", i + 1) for i in range(nd)]
        else:
            points += [("distinct", 1 + ch.choose(nd)) for _ in range(k)]
        if counts["raw"] > nd:
            points += [("raw", 1 + ch.choose(counts["raw"]))
                       for _ in range(max(2, k // 4))]
        out = []
        for j, (mode, n) in enumerate(points):
            cls = SystemExit if j % 3 == 2 else KeyboardInterrupt
            it = trace.Interrupt(n, cls, distinct=mode == "distinct")
            trace.arm_interrupt(it)
            try:
                r = run_real(template, tmpl, plan, hcfg)
            finally:
                trace.arm_interrupt(None)
            if it.fired is None:
                continue
            stats["fired"]["async:" + cls.__name__] = \
                stats["fired"].get("async:" + cls.__name__, 0) + 1
            where = "%s:%s" % ("<generated>" if trace.GEN_RE.search(
                it.fired[0]) else it.fired[0], it.fired[1])
            cover.add("async@" + where.split(":")[0])
            bad = None
            if r["raise"] is None:
                bad = ("interrupt-swallowed",
                       f"render() returned {str(r['out'])[:200]!r}")
            elif type(r["raise"][1]) is not cls:
                bad = ("interrupt-replaced",
                       f"render() raised {type(r['raise'][1]).__mro__}")
            log.add("async", mode, n, cls.__name__, where, bad is None)
            if bad is not None:
                out.append({
                    "kind": bad[0], "sig": bad[0],
                    "detail": f"{cls.__name__} delivered at the {n}-th "
                              f"{'distinct line' if mode == 'distinct' else 'line event'}"
                              f" of a render ({where}, line {it.fired[2]}): "
                              f"{bad[1]}",
                    "plan_index": 0, "plan": plan, "handler": hcfg})
                break
        return out

    def is_nontrivial(self, plan, r, m) -> bool:
        return bool(r["raised"])

    def oracle(self, case, src, occ, tmpl, plan, hcfg, r, m, cover) -> list:
        raise NotImplementedError

    # -- minimisation ----------------------------------------------------------
    def minimise(self, case: dict, violation: dict, known_sigs=(),
                 max_tests: int = 400, max_seconds: float = 60.0) -> dict:
        # first pin the case to the single failing plan
        c = copy.deepcopy(case)
        if violation.get("needs_history"):
            # keep the plan list (made explicit), drop plans one by one
            return self._minimise_history(c, violation, known_sigs)
        c["plans"] = [{"plan": violation["plan"],
                       "handler": violation["handler"]}]
        c.pop("plan_seed", None)
        c.pop("nplans", None)
        if not self.still_fails(c, violation["sig"]):
            return case
        return super().minimise(c, violation, known_sigs, max_tests,
                                max_seconds)

    def _minimise_history(self, c: dict, violation: dict, known_sigs) -> dict:
        src_plans = None
        if "plans" not in c:
            self.quiesce()
            tmpl = c["tmpl"]
            if "files" in tmpl:
                return c            # (multi-file sets: keep the seed form)
            src, _ = serialise(tmpl["tree"], pretty=c.get("pretty", False),
                               seps=c.get("seps", False),
                               data=c.get("data", False))
            template = self.compile(src, c.get("data", False))
            src_plans = self.make_plans(c, tmpl, template)
            c["plans"] = [{"plan": p, "handler": h} for p, h in src_plans]
            c.pop("plan_seed", None)
            c.pop("nplans", None)
        if not self.still_fails(c, violation["sig"]):
            return c
        # delta-debug the plan list
        plans = c["plans"]
        n = 2
        import time as _t
        t0 = _t.time()
        while len(plans) >= 2 and _t.time() - t0 < 40:
            chunk = max(1, len(plans) // n)
            reduced = False
            for i in range(0, len(plans), chunk):
                cand = plans[:i] + plans[i + chunk:]
                if not cand:
                    continue
                d = dict(c, plans=cand)
                if self.still_fails(d, violation["sig"]):
                    plans = cand
                    c = d
                    n = max(n - 1, 2)
                    reduced = True
                    break
            if not reduced:
                if chunk == 1:
                    break
                n = min(n * 2, len(plans))
        return c

    def shrink_candidates(self, case: dict):
        c = case
        plan = c["plans"][0]["plan"]
        for i in range(len(plan)):
            d = copy.deepcopy(c)
            del d["plans"][0]["plan"][i]
            yield d
        if c["plans"][0].get("handler") is not None:
            d = copy.deepcopy(c)
            d["plans"][0]["handler"] = None
            yield d
        # tree reductions: paths to elements
        tree = c["tmpl"]["tree"]

        def paths(n, p):
            yield p
            if n["t"] == "el":
                for i, ch_ in enumerate(n["children"]):
                    yield from paths(ch_, p + [i])

        def at(root, p):
            n = root
            for i in p:
                n = n["children"][i]
            return n
        allp = list(paths(tree, []))
        # remove whole subtrees, biggest (shallowest) first
        for p in sorted(allp, key=len):
            if not p:
                continue
            d = copy.deepcopy(c)
            parent = at(d["tmpl"]["tree"], p[:-1])
            del parent["children"][p[-1]]
            yield d
        # hoist: replace an element by its children
        for p in sorted(allp, key=len):
            if not p:
                continue
            n = at(tree, p)
            if n["t"] == "el" and n["children"] and not n["switch"]:
                d = copy.deepcopy(c)
                parent = at(d["tmpl"]["tree"], p[:-1])
                kids = at(d["tmpl"]["tree"], p)["children"]
                if any(k.get("case") is not None for k in kids
                       if k["t"] == "el"):
                    continue
                parent["children"][p[-1]:p[-1] + 1] = kids
                yield d
        # drop statements
        for p in allp:
            n = at(tree, p)
            if n["t"] != "el":
                continue
            for s in list(n.get("order", [])):
                if s == "case":
                    continue
                d = copy.deepcopy(c)
                m = at(d["tmpl"]["tree"], p)
                m["order"].remove(s)
                m[s] = [] if s in ("define", "attributes") else None
                yield d
            if n["static"]:
                d = copy.deepcopy(c)
                at(d["tmpl"]["tree"], p)["static"] = []
                yield d
            for k in ("define", "attributes"):
                if len(n[k]) > 1:
                    for i in range(len(n[k])):
                        d = copy.deepcopy(c)
                        del at(d["tmpl"]["tree"], p)[k][i]
                        yield d
        # simplify expressions: pipe -> first alternative etc.
        for p in allp:
            n = at(tree, p)
            if n["t"] == "text":
                if len(n["parts"]) > 1:
                    for i in range(len(n["parts"])):
                        d = copy.deepcopy(c)
                        del at(d["tmpl"]["tree"], p)["parts"][i]
                        yield d
                continue

    def sample(self, case: dict, res: dict) -> dict:
        s = res.get("summary") or {}
        return {"template": s.get("source"), "plans": s.get("plans"),
                "example_plan": (case.get("plans") or [{}])[0]
                if "plans" in case else "drawn from plan_seed=%s" %
                case.get("plan_seed"),
                "violations": [v["sig"] for v in res.get("violations", ())]}


def exc_desc(e) -> list:
    return [type(e).__name__, _args(e)]
