"""C04 - TALES semantics under failing alternatives; every reached
expression evaluated exactly once, in order; unreached ones never.

Only the fault-dependent clauses of the property are decided here: which
exception classes make a pipe (and exists:) move on and which propagate,
and the call history of the probes (exactly-once, order, never-if-
unreached) while guards, pipes, on-error recovery and switch/case steer
control flow.  Each pipe alternative / guard / define / attribute /
interpolation is a simulator-owned call that returns or raises a chosen
class.
"""
from __future__ import annotations

from ..env import _args
from .c13 import tal_evidence
from .talbase import TalCheck
from .talcommon import run_model


class C04(TalCheck):
    prop = "C04"
    level = "exploration"
    gen_opts = {"on_error": 0.15, "max_sites": 26, "pipes": 0.45,
                "prefixes": 0.3, "switch": 0.2, "macros": 0.12, "pyforms": 0.15, "i18n": 0.1, "code": 0.15, "mutlit": 0.12, "twins": 0.1,
                "attr_default_interp": 0.5, "raising_forms": 0.06, "bare_names": 0.35, "selfclose": 0.3}
    plans_per_template = 50

    def oracle(self, case, src, occ, tmpl, plan, hcfg, r, m, cover) -> list:
        vs = self._judge(tmpl, plan, hcfg, r, m, cover)
        if vs and m.get("raw_attr_relevant"):
            # Known finding F28: ``default`` from tal:attributes over a
            # static attribute that contains ${...} emits the static text
            # as it stands - the interpolation is reached and never
            # evaluated.  Filed only when the whole observation equals the
            # model variant that does exactly that.
            variants = [{"raw_default_attr": True}]
            if m.get("guard_relevant"):
                variants.append({"raw_default_attr": True,
                                 "guard_tags": False})
            for kw in variants:
                alt = run_model(tmpl, plan, hcfg, **kw)
                if alt.get("guard_relevant") and len(variants) == 1:
                    # (an omit-tag guard with on-error that only the
                    # variant reaches: the main model stopped before it)
                    variants.append({"raw_default_attr": True,
                                     "guard_tags": False})
                if not self._judge(tmpl, plan, hcfg, r, alt, set()):
                    return [{
                        "kind": "history",
                        "sig": "default-attribute-interpolation-not-evaluated",
                        "detail": f"rendered {str(r['out'])[:300]!r}, probe "
                                  f"history {r['history']}; expected "
                                  f"{str(m['out'])[:300]!r}, {m['history']}"}]
        if vs and m.get("guard_relevant"):
            # C13's known finding F12 (a fallback loses the tags of an
            # element with an omit-tag expression) and what follows from it
            # (an emptied translation block is not translated): when the
            # observation agrees in every respect with the model variant
            # that drops those tags it is not an evaluation-order matter.
            alt = run_model(tmpl, plan, hcfg, guard_tags=False)
            if not self._judge(tmpl, plan, hcfg, r, alt, set()):
                cover.add("f12-variant")
                return []
        return vs

    def _judge(self, tmpl, plan, hcfg, r, m, cover) -> list:
        vs = []
        if r["history"] != m["history"]:
            sig = "history"
            alt = run_model(tmpl, plan, hcfg, case_once=False)
            if alt["history"] == r["history"]:
                sig = "history:case-evaluated-twice"
            vs.append({"kind": "history", "sig": sig,
                       "detail": f"probe call history {r['history']}, "
                                 f"expected {m['history']}"})
            return vs
        if r.get("tcalls") != m.get("tcalls"):
            vs.append({"kind": "translate-calls", "sig": "translate-calls",
                       "detail": f"the translation function was called with "
                                 f"{str(r.get('tcalls'))[:400]}, expected "
                                 f"{str(m.get('tcalls'))[:400]}"})
            return vs
        rr, mr = r["raise"], m["raise"]
        if rr is None and mr is None:
            if r["out"] != m["out"]:
                vs.append({"kind": "result", "sig": "result",
                           "detail": f"rendered {r['out']!r}\n expected "
                                     f"{m['out']!r}"})
        elif (rr is None) != (mr is None) or rr[0] != mr[0] or \
                _args(rr[1]) != _args(mr[1]):
            vs.append({
                "kind": "propagation", "sig": "propagation",
                "detail": "render() " + (
                    f"raised {rr[0]}({_args(rr[1])})" if rr else
                    f"returned {r['out']!r}") + ", expected " + (
                    f"{mr[0]}({_args(mr[1])}) to propagate" if mr else
                    f"{m['out']!r}")})
        for _, _, exc in r["raised"]:
            cover.add("raised:" + type(exc).__name__)
        return vs

    def evidence(self, agg: dict, tier: str) -> dict:
        return tal_evidence(agg, (
            "templates from the seeded tree generator biased towards pipes "
            "of 2-4 alternatives (ending in a probe, a literal, nothing, "
            "default or a string: expression), not:, exists:, string:, "
            "python: and structure, at every statement and interpolation "
            "site; per template the fault-free plan plus 50 sampled plans "
            "in which 1-3 probe invocations raise a class the pipe must "
            "catch (8 classes), must not catch (9) or that lies outside "
            "Exception (4), or return a different value (so guards flip "
            "and other parts become reached/unreached). Non-trivial: at "
            "least one probe raised; distinct by hash of (source, plan)."))


CHECK = C04()
