"""C15 - the on-disk module cache is sound and crash-safe.

Simulated processes share one cache directory.  Workloads:

  keys     two configurations differing in exactly one compilation input,
           compiled in either order, in one process / across a restart /
           in two processes at once
  crash    one writer; crash or errno fault at a seeded file-system step
  writers  two writers of the same entry interleaved under PCT (same
           process = two threads under the process lock, or two processes)

Oracle: every outcome a simulated process or an observer sees equals the
outcome of the same template built with the in-memory loader; every
final-named cache entry is byte-for-byte something a writer handed over
completely; after faults stop a fresh process gets every template right at
the first attempt.
"""
from __future__ import annotations

import copy
import os
import re

from ..chamsim import describe_exc, import_chameleon
from ..core import (Choices, EventLog, Scheduler, SimCrash, canonical,
                    make_policy, short_hash)
from ..fs import World, real
from .base import CheckBase

# --------------------------------------------------------------------------
# the sensitive family: one body per compilation input
# --------------------------------------------------------------------------

B_PLAIN1 = '<html><body><h1 tal:content="name">t</h1><ul><li tal:repeat="i items">${i}: ${repeat.i.number}</li></ul></body></html>'
B_PLAIN2 = '<html><body><h2 tal:content="name">t</h2><p tal:condition="c">yes</p></body></html>'
B_MACRO = ('<div><p metal:define-macro="m1">M1 ${name} <span metal:define-slot="s">dflt</span></p>'
           '<div metal:use-macro="template.macros[\'m1\']"><b metal:fill-slot="s">filled ${len(items)}</b></div>'
           '<i tal:define="global g name" tal:on-error="string:err">${g} ${1/0}</i></div>')
B_LONG = '<table>' + ''.join(
    '<tr tal:condition="c" class="r%d"><td tal:content="items[%d %% len(items)]">x</td>'
    '<td tal:attributes="title name; id string:id%d">${name}-%d</td></tr>' % (i, i, i, i)
    for i in range(12)) + '</table>'
B_I18N = ('<div i18n:domain="d"><p i18n:translate="">Hello <b i18n:name="who">${name}</b>, '
          'you have <i i18n:name="n">${len(items)}</i> items</p></div>')
B_CODE = '<div><?python x = sum(items) ?><p>${x}</p><p tal:switch="x"><b tal:case="6">six</b><b tal:case="default">other</b></p></div>'

POOL = [B_PLAIN1, B_PLAIN2, B_MACRO, B_LONG, B_I18N, B_CODE]

# (input name, value A, value B, body, class A, class B)
FAMILY = [
    ("body", None, None, None, "PageTemplate", "PageTemplate"),
    ("class", None, None, "<p>${'<'} ${name}</p>", "PageTemplate", "PageTextTemplate"),
    ("class_module", None, None, '<p tal:content="hello">x</p>', "PageTemplate", "Alt:PageTemplate"),
    # two classes of one name (a subclass edited between two releases, made
    # by one factory) that differ in a class-level setting
    ("class_level", None, None, '<p tal:content="hello">x</p>', "Alt3a:PageTemplate", "Alt3b:PageTemplate"),
    ("class_level", None, None, '<p hidden="${name}">x</p>', "Alt4a:PageTemplate", "Alt4b:PageTemplate"),
    ("filename", "a.pt", "b.pt", "<p>${1/0}</p>", "PageTemplate", "PageTemplate"),
    # (the extension is part of the name that error reports give)
    ("filename", "a.pt", "a.txt", "<p>${1/0}</p>", "PageTemplate", "PageTemplate"),
    ("filename", "v1/a.pt", "v1/a.pt.orig", "<p>${1/0}</p>", "PageTemplate", "PageTemplate"),
    # body and class name, one after the other, spell the same text
    ("body_class_boundary", "<p>${name}</p>chameleo", "<p>${name}</p>", None, "Alt2:PageTemplate", "PageTemplate"),
    # the same file name with the same content in two directories (a
    # template copied from one skin to another): the path is compiled in
    ("directory", "d0", "d1", "<p>${name}${1/0}</p>", "PageTemplateFile", "PageTemplateFile"),
    ("extra_builtins", {"foo": 1}, {"bar": 1}, "<p>${foo | 'nofoo'} ${bar | 'nobar'}</p>", "PageTemplate", "PageTemplate"),
    ("strict", True, False, '<div><p tal:condition="False" tal:content="a b"/>ok</div>', "PageTemplate", "PageTemplate"),
    ("trim_attribute_space", True, False, '<div  a="1"\n     b="2">x</div>', "PageTemplate", "PageTemplate"),
    ("implicit_i18n_translate", True, False, "<p>Hello</p>", "PageTemplate", "PageTemplate"),
    ("implicit_i18n_attributes", ["alt"], [], '<img alt="Hello" />', "PageTemplate", "PageTemplate"),
    ("boolean_attributes", ["foo"], None, '<a foo="${c}">x</a>', "PageTemplate", "PageTemplate"),
    ("enable_data_attributes", True, False, '<div data-tal-content="name">y</div>', "PageTemplate", "PageTemplate"),
    ("enable_comment_interpolation", True, False, "<div><!-- ${1+1} --></div>", "PageTemplate", "PageTemplate"),
    ("restricted_namespace", True, False, '<div v-bind:id="x">y</div>', "PageTemplate", "PageTemplate"),
    ("default_expression", "python", "string", '<p tal:content="abc">x</p>', "PageTemplate", "PageTemplate"),
    # edge values: unset vs empty, one member vs another
    ("boolean_attributes_unset_vs_empty", None, [], '<input checked="${c}" />', "PageTemplate", "PageTemplate"),
    ("boolean_attributes_members", ["foo"], ["foo", "bar"], '<a foo="${c}" bar="${c}">x</a>', "PageTemplate", "PageTemplate"),
    ("implicit_i18n_attributes_members", ["alt"], ["title"], '<img alt="Hello" title="World" />', "PageTemplate", "PageTemplate"),
    ("extra_builtins_more", {"foo": 1}, {"foo": 1, "bar": 2}, "<p>${foo} ${bar | 'nobar'}</p>", "PageTemplate", "PageTemplate"),
    ("default_expression_structure", "python", "structure", '<p tal:content="name">x</p>', "PageTemplate", "PageTemplate"),
    ("tokenizer", None, "iter_text", 'hello <b tal:content="name">x</b> there', "PageTemplate", "PageTemplate"),
    ("default_marker", None, "MY", '<p tal:content="m">dflt</p>', "PageTemplate", "PageTemplate"),
    # the table of expression compilers (python: handled as a string)
    ("expression_types", None, "PY_AS_STRING", '<p tal:content="name">x</p> ${name}', "PageTemplate", "PageTemplate"),
    # ... with entries that are functools.partial objects differing in the
    # order of their positional arguments / in one keyword value
    ("expression_types_partial", "QUOTE:(:)", "QUOTE:):(", '<p tal:content="quote:name">x</p>', "PageTemplate", "PageTemplate"),
    ("tokenizer_lambda", "LAMBDA:up", "LAMBDA:low", "<p>Hello</p>", "PageTemplate", "PageTemplate"),
    # ... or classes made by one factory (same module, same qualified name)
    # two functions of one source line that differ in a default argument
    ("tokenizer_lambda", "LAMBDA_D:up", "LAMBDA_D:low", "<p>Hello</p>", "PageTemplate", "PageTemplate"),
    ("expression_types_factory", "FACT:A-", "FACT:B-", '<p tal:content="mark:name">x</p>', "PageTemplate", "PageTemplate"),
    # an instance whose representation is the default one (class and
    # address): the restarted process has a different one at the same address
    # a bound method (what it does depends on its instance) and classes
    # built with type() (one name for all of them)
    ("tokenizer_bound_method", "METHOD:up", "METHOD:low", "<p>Hello</p>", "PageTemplate", "PageTemplate"),
    ("expression_types_typed", "TYPED:A-", "TYPED:B-", '<p tal:content="mark:name">x</p>', "PageTemplate", "PageTemplate"),
    ("expression_types_quiet", "QUIET:Hello ", "QUIET:Bye ", '<p tal:content="greet:name">x</p>', "PageTemplate", "PageTemplate"),
    ("expression_types_instance", "INST:Hello ", "INST:Bye ", '<p tal:content="greet:name">x</p>', "PageTemplate", "PageTemplate"),
    # the content type a template falls back to when its body does not
    # declare one decides between HTML and XML compilation
    ("default_content_type", None, "text/xml", '<input type="checkbox" checked="${c}" /><p>${name}</p>', "PageTemplate", "PageTemplate"),
    # not an option either: the versions of the installed distributions (an
    # add-on that provides an expression type is upgraded between two runs
    # of the application)
    ("package_version", "1.0", "2.0", '<p tal:content="shout:name">x</p>', "PageTemplate", "PageTemplate"),
    # ... and the application imports the add-on only after it has compiled
    # some other template (whatever is remembered from then must not hide
    # the add-on's version)
    ("package_version_late", "1.0+late", "2.0+late", '<p tal:content="shout:name">x</p>', "PageTemplate", "PageTemplate"),
    # not an option at all: the names the process had in ``builtins`` when
    # it imported chameleon (gettext.install() in one of two applications
    # sharing the directory) decide how a free name is compiled
    ("process_builtins", True, None, "<p>${_verif_gb(name)}</p>", "PageTemplate", "PageTemplate"),
    # runtime-only options: sharing an entry is *correct* for these
    ("encoding", None, "utf-8", '<p tal:content="name">x</p>', "PageTemplate", "PageTemplate"),
    ("extra_builtins_value", {"foo": 1}, {"foo": 2}, "<p>${foo}</p>", "PageTemplate", "PageTemplate"),
]
# bodies that differ in something a key must not normalise away (the output
# differs): line endings under an XML declaration (not converted in XML
# mode), trailing newline, tag case, numeric vs named entity, tab vs space,
# composed vs decomposed character
NEAR_BODIES = [
    ('<?xml version="1.0"?>\r\n<doc>\r\n<p>${name}</p>\r\n</doc>',
     '<?xml version="1.0"?>\n<doc>\n<p>${name}</p>\n</doc>'),
    ('<?xml version="1.0"?>\r<doc>\r<p>${name}</p></doc>',
     '<?xml version="1.0"?>\n<doc>\n<p>${name}</p></doc>'),
    ("<p>${name}</p>", "<p>${name}</p>\n"),
    ("<P>${name}</P>", "<p>${name}</p>"),
    ("<p>&lt;${name}</p>", "<p>&#60;${name}</p>"),
    ("<p>a\tb ${name}</p>", "<p>a b ${name}</p>"),
    ("<p>caf\u00e9 ${name}</p>", "<p>cafe\u0301 ${name}</p>"),
    ("<p>${name }</p>", "<p>${name}</p> "),
    # a lone surrogate (text that came through surrogateescape)
    ("<p>\ud800x ${name}</p>", "<p>x ${name}</p>"),
    ("<p>\ud800 ${name}</p>", "<p>\ud801 ${name}</p>"),
]
FAMILY += [("body_near", a, b, None, "PageTemplate", "PageTemplate")
           for a, b in NEAR_BODIES]
FAMILY_BY_NAME = {f[0]: f for f in FAMILY}
OPTION_OF = {
    "expression_types_partial": "expression_types",
    "expression_types_factory": "expression_types",
    "expression_types_instance": "expression_types",
    "expression_types_quiet": "expression_types",
    "expression_types_typed": "expression_types",
    "tokenizer_bound_method": "tokenizer",
    "tokenizer_lambda": "tokenizer",
    "extra_builtins_value": "extra_builtins",
    "extra_builtins_more": "extra_builtins",
    "boolean_attributes_unset_vs_empty": "boolean_attributes",
    "boolean_attributes_members": "boolean_attributes",
    "implicit_i18n_attributes_members": "implicit_i18n_attributes",
    "default_expression_structure": "default_expression",
}
SET_OPTIONS = {"implicit_i18n_attributes", "boolean_attributes"}


class _Marker:
    """An importable marker object (generated code imports it by name)."""

    def __init__(self, module: str, name: str) -> None:
        self.__module__ = module
        self.name = name

    @property
    def __name__(self) -> str:
        return "%s_MARKER" % self.name

    def __repr__(self) -> str:
        return "<%s>" % self.name


MY_MARKER = _Marker(__name__, "MY")


def upper_translate(msgid, domain=None, mapping=None, context=None,
                    target_language=None, default=None):
    text = default if default is not None else msgid
    if mapping:
        for k in sorted(mapping):
            text = str(text).replace("${%s}" % k, str(mapping[k]))
    return str(text).upper()


def render_args() -> dict:
    return {"name": "W<o>rld", "items": [1, 2, 3], "c": True,
            "translate": upper_translate, "m": MY_MARKER}


_ADDR = re.compile(r"0x[0-9a-fA-F]+")
_TMPROOT = re.compile(r"/(?:dev/shm|tmp)/verif-[^/\s]+")
_HEX32 = re.compile(r"[0-9a-f]{32}")


_CUT = re.compile(r"\.\.\. [^/\s]*/")


def norm_msg(s: str) -> str:
    # (a long file name is abbreviated to "... <its last characters>": the
    # fragment of the sandbox directory that is left goes too)
    s = _TMPROOT.sub("<root>", _ADDR.sub("0x?", s))
    return _HEX32.sub("H", _CUT.sub("<root>/", s))[:1500]


def outcome_of_exc(e: BaseException) -> list:
    try:
        msg = str(e)
    except Exception as e2:     # noqa: BLE001
        msg = f"<str failed: {type(e2).__name__}>"
    return ["exc", type(e).__name__, norm_msg(msg)]


class QuoteExpr:
    """``quote:expr`` - the value of ``expr`` between two marks; used as
    ``functools.partial(QuoteExpr, opening, closing)`` in a table of
    expression types."""

    def __init__(self, opening, closing, expression):
        self.opening = opening
        self.closing = closing
        self.expression = expression

    def __call__(self, target, engine):
        import ast
        from chameleon.codegen import template
        compiler = engine.parse(self.expression)
        body = compiler.assign_value(target)
        return body + template(
            "target = opening + str(target) + closing", target=target,
            opening=ast.Constant(self.opening),
            closing=ast.Constant(self.closing))


class Greet:
    """``greet:expr`` - a configured *instance* as expression type; its
    representation is what ``object.__repr__`` gives.  The simulator decides
    where such an object is: at ``GREET_ADDR`` whenever the one that was
    there is gone (and at each start of a process), so that a second one
    regularly comes to be where the first one was - as it does, erratically,
    in CPython."""

    def __init__(self, word):
        import weakref
        self.word = word
        holder = _GREET_AT[0]
        if holder is None or holder() is None:
            _GREET_AT[0] = weakref.ref(self)
            self.addr = GREET_ADDR
        else:
            self.addr = id(self)

    def __repr__(self):
        return "<sim.checks.c15.Greet object at 0x%x>" % self.addr

    def __call__(self, expression):
        return QuoteExpr(self.word, "", expression)


class Quiet:
    """``greet:expr`` again, by an instance whose representation says
    nothing about how it was configured (a dataclass with a ``repr=False``
    field prints like this)."""

    def __init__(self, word):
        self.word = word

    def __repr__(self):
        return "Quiet()"

    def __call__(self, expression):
        return QuoteExpr(self.word, "", expression)


GREET_ADDR = 0x7f3eadee3830
_GREET_AT: list = [None]


def sim_id(obj):
    """``id`` as chameleon.zpt.template sees it."""
    if type(obj) is Greet:
        return obj.addr
    return id(obj)


EXT_VERSION = ["1.0"]      # version of the add-on the running process has


class ShoutExpr:
    """``shout:expr`` - provided by an add-on distribution; what it compiles
    to changed between the add-on's versions 1.0 and 2.0 (the class, its
    module and its qualified name did not)."""

    def __init__(self, expression):
        self.expression = expression

    def __call__(self, target, engine):
        import ast
        from chameleon.codegen import template
        compiler = engine.parse(self.expression)
        body = compiler.assign_value(target)
        return body + template(
            "target = str(target).upper() + mark", target=target,
            mark=ast.Constant("!" if EXT_VERSION[0] == "1.0" else "?"))


# two anonymous functions of one module (both are '<module>.<lambda>')
def _tok(body, filename=None, _f=str):
    from chameleon.tokenize import iter_xml
    return iter_xml(_f(body), filename)


TOK_UP = lambda body, filename=None: _tok(body, filename, str.upper)    # noqa: E731
TOK_LOW = lambda body, filename=None: _tok(body, filename, str.lower)   # noqa: E731


def _tok_with(f):
    # (the ubiquitous default-argument binding: same code, nothing captured)
    return lambda body, filename=None, _f=f: _tok(body, filename, _f)


TOK_D_UP = _tok_with(str.upper)
TOK_D_LOW = _tok_with(str.lower)


class Tok:
    """Its bound method ``tok`` is given as tokenizer."""

    def __init__(self, f):
        self.f = f

    def tok(self, body, filename=None):
        return _tok(body, filename, self.f)


TOK_M_UP = Tok(str.upper)
TOK_M_LOW = Tok(str.lower)
_TYPED: dict = {}


def make_typed(mark: str):
    """As make_mark, with ``type()``: the qualified name is plain ``Mark``,
    nothing tells that a function made the class."""
    Base = make_mark(mark)
    return type("Mark", (Base,), {"__module__": __name__})


def make_mark(mark: str):
    """A factory of expression-type classes: every class it returns has the
    same module and the same qualified name."""

    class Mark:
        def __init__(self, expression):
            self.expression = expression

        def __call__(self, target, engine):
            import ast
            from chameleon.codegen import template
            compiler = engine.parse(self.expression)
            body = compiler.assign_value(target)
            return body + template(
                "target = mark + str(target)", target=target,
                mark=ast.Constant(mark))
    return Mark


_MARKS: dict = {}


def _verif_gb(s):
    """Installed into ``builtins`` (what gettext.install() does with _)."""
    return str(s).upper()


class C15(CheckBase):
    prop = "C15"
    level = "fault_enumeration"

    def __init__(self) -> None:
        self._ref_cache: dict[str, list] = {}
        self._alt = None
        self._gb_classes: dict = {}

    # -- set-up --------------------------------------------------------------
    def warmup(self) -> None:
        ch = import_chameleon()
        self.ch = ch
        # (after chameleon was imported: its snapshot of the builtin names
        # does not have it)
        import builtins
        from chameleon.compiler import Compiler
        assert "_verif_gb" not in Compiler.global_builtins
        builtins._verif_gb = _verif_gb      # type: ignore[attr-defined]
        from chameleon.zpt import template as zt
        self.zt = zt
        zt.id = sim_id      # type: ignore[attr-defined]
        check = self

        class _OsView:
            """``os`` as chameleon.zpt.template sees it: the process id is
            the simulated process's."""

            def __getattr__(self, name):
                return getattr(os, name)

            def getpid(self):
                w = getattr(check, "_cur_world", None)
                p = w.current_proc() if w is not None else None
                return getattr(p, "pid", 100)
        zt.os = _OsView()   # type: ignore[attr-defined]
        self._ensure_alt()
        # fixed warm-up run so that lazily filled process-wide caches do
        # not change the number of events of the first counted run
        case = {"wl": "crash", "block": 512, "templates": [
            {"cls": "PageTemplate", "body": B_PLAIN2, "config": {}}],
            "phases": [{"procs": [{"name": "A", "ops": [["construct", 0],
                                                        ["render", 0]]}],
                        "sched": {"kind": "fifo"}}],
            "plan": {}, "snaps": []}
        self.run(case)
        self.run(case)

    def _ensure_alt(self) -> None:
        if self._alt is None:
            # a *different* class that happens to have the same __name__
            # (third-party packages do this: z3c.pt.pagetemplate.PageTemplate)
            Alt = type("PageTemplate", (self.zt.PageTemplate,),
                       {"default_expression": "string",
                        "__module__": "verif_alt_package.pagetemplate"})
            self._alt = Alt
            for tag_, attrs_ in (
                    ("3a", {"default_expression": "string"}),
                    ("3b", {"default_expression": "python"}),
                    ("4a", {"boolean_attributes": {"hidden"}}),
                    ("4b", {"boolean_attributes": set()})):
                setattr(self, "_alt" + tag_, type(
                    "SiteTemplate", (self.zt.PageTemplate,),
                    dict(attrs_, __module__="verif_site.templates")))
            # one whose module's name ends as chameleon's begins
            self._alt2 = type("PageTemplate", (self.zt.PageTemplate,),
                              {"__module__": "n.zpt.template"})

    def budget(self, tier: str) -> dict:
        b = super().budget(tier)
        return b

    def _new_token(self):
        """A process draws its token when it imports chameleon."""
        self._tokens = getattr(self, "_tokens", 0) + 1
        if hasattr(self.zt, "_PROCESS_TOKEN"):
            self.zt._PROCESS_TOKEN = "%032x" % self._tokens
        _GREET_AT[0] = None     # (a new address space)
        # ... and whatever else the module keeps per process starts over
        if hasattr(self.zt, "_identities_count"):
            import itertools
            self.zt._identities.clear()
            self.zt._identities_count = itertools.count(1)

    # -- building templates ----------------------------------------------------
    def _cls(self, name: str):
        zt = self.zt
        if name == "Alt:PageTemplate":
            return self._alt
        if name == "Alt2:PageTemplate":
            return self._alt2
        if name.startswith("Alt") and name[3:5] in ("3a", "3b", "4a", "4b"):
            return getattr(self, "_alt" + name[3:5])
        return getattr(zt, name)

    def _config(self, spec: dict) -> dict:
        cfg = {}
        for k, v in spec.get("config", {}).items():
            if k == "process_builtins":
                continue
            if k in ("package_version", "package_version_late"):
                cfg["expression_types"] = dict(
                    self.zt.PageTemplate.expression_types, shout=ShoutExpr)
                continue
            k = OPTION_OF.get(k, k)
            if k in SET_OPTIONS and v is not None:
                v = set(v)
            if k == "tokenizer" and isinstance(v, str) and \
                    v.startswith("LAMBDA:"):
                v = TOK_UP if v.endswith("up") else TOK_LOW
            if k == "tokenizer" and isinstance(v, str) and \
                    v.startswith("METHOD:"):
                v = (TOK_M_UP if v.endswith("up") else TOK_M_LOW).tok
            if k == "expression_types" and isinstance(v, str) and \
                    v.startswith("TYPED:"):
                m_ = v[6:]
                if m_ not in _TYPED:
                    _TYPED[m_] = make_typed(m_)
                v = dict(self.zt.PageTemplate.expression_types,
                         mark=_TYPED[m_])
            if k == "tokenizer" and isinstance(v, str) and \
                    v.startswith("LAMBDA_D:"):
                v = TOK_D_UP if v.endswith("up") else TOK_D_LOW
            if k == "tokenizer" and v == "iter_text":
                from chameleon.tokenize import iter_text
                v = iter_text
            if k == "expression_types" and isinstance(v, str) and \
                    v.startswith("QUOTE:"):
                from functools import partial
                _, a_, b_ = v.split(":")
                v = dict(self.zt.PageTemplate.expression_types,
                         quote=partial(QuoteExpr, a_, b_))
            if k == "expression_types" and isinstance(v, str) and \
                    v.startswith("FACT:"):
                m_ = v[5:]
                if m_ not in _MARKS:
                    _MARKS[m_] = make_mark(m_)
                v = dict(self.zt.PageTemplate.expression_types,
                         mark=_MARKS[m_])
            if k == "expression_types" and isinstance(v, str) and \
                    v.startswith("QUIET:"):
                v = dict(self.zt.PageTemplate.expression_types,
                         greet=Quiet(v[6:]))
            if k == "expression_types" and isinstance(v, str) and \
                    v.startswith("INST:"):
                v = dict(self.zt.PageTemplate.expression_types,
                         greet=Greet(v[5:]))
            if k == "expression_types" and v == "PY_AS_STRING":
                from chameleon.tales import StringExpr
                v = dict(self.zt.PageTemplate.expression_types,
                         python=StringExpr)
            if k == "default_marker" and v == "MY":
                from chameleon.astutil import Symbol
                v = Symbol(MY_MARKER)
            cfg[k] = v
        return cfg

    def build(self, spec: dict, loader, world: World | None):
        cls = self._cls(spec["cls"])
        if spec.get("config", {}).get("process_builtins"):
            cls = self._knows_builtin(cls)
        pv_ = spec.get("config", {}).get("package_version") or \
            spec.get("config", {}).get("package_version_late")
        if pv_:
            cls = self._with_addon(cls, pv_)
        cfg = self._config(spec)
        if loader is not None:
            cfg["loader"] = loader
        if spec.get("file"):
            path = world.path("tpl", spec.get("dir", "d"), spec["file"])
            return cls(path, **cfg)
        return cls(spec["body"], **cfg)

    def _knows_builtin(self, cls):
        """The same class as seen by a process in which ``_verif_gb`` was
        a builtin when chameleon was imported (compilation runs with the
        compiler's import-time snapshot of the builtin names extended)."""
        k = self._gb_classes.get(cls)
        if k is None:
            from chameleon.compiler import Compiler

            class Knows(cls):
                def cook(self, body):
                    old = Compiler.global_builtins
                    Compiler.global_builtins = old | {"_verif_gb"}
                    try:
                        return super().cook(body)
                    finally:
                        Compiler.global_builtins = old
            Knows.__name__ = cls.__name__
            Knows.__qualname__ = cls.__qualname__
            Knows.__module__ = cls.__module__
            k = self._gb_classes[cls] = Knows
        return k

    def _with_addon(self, cls, version: str):
        """The same class in a process where the add-on distribution
        'verif-ext' is installed in the given version: while it compiles,
        the installed-distribution metadata says so, the add-on's code is
        that version's, and the process's memo of the package digest is its
        own."""
        key = (cls, version)
        late = version.endswith("+late")
        version = version.split("+")[0]
        k = self._gb_classes.get(key)
        if k is None:
            import chameleon.template as tm

            class WithAddon(cls):
                def cook(self, body):
                    md = tm.importlib_metadata
                    old_pd, old_v = md.packages_distributions, md.version
                    old_memo, old_ext = tm._pkg_digest, EXT_VERSION[0]

                    def pd():
                        d = dict(old_pd())
                        d["verif_ext"] = ["verif-ext"]
                        return d

                    def ver(name):
                        return version if name == "verif-ext" else old_v(name)
                    md.packages_distributions, md.version = pd, ver
                    tm._pkg_digest = None
                    EXT_VERSION[0] = version
                    import sys as _sys
                    import types as _types
                    if late:
                        # an earlier template of this process was compiled
                        # before the add-on was imported
                        _sys.modules.pop("verif_ext", None)
                        tm.get_pkg_digest()
                    # (the add-on is imported in this process: it provides
                    # the expression type)
                    _sys.modules.setdefault("verif_ext",
                                            _types.ModuleType("verif_ext"))
                    try:
                        return super().cook(body)
                    finally:
                        md.packages_distributions, md.version = old_pd, old_v
                        tm._pkg_digest = old_memo
                        EXT_VERSION[0] = old_ext
                        _sys.modules.pop("verif_ext", None)
            WithAddon.__name__ = cls.__name__
            WithAddon.__qualname__ = cls.__qualname__
            WithAddon.__module__ = cls.__module__
            k = self._gb_classes[key] = WithAddon
        return k

    def reference(self, spec: dict, world: World) -> list:
        """[construct outcome, render outcome] without any cache."""
        key = canonical(spec)
        r = self._ref_cache.get(key)
        if r is not None:
            return r
        from chameleon.loader import MemoryLoader
        if len(self._ref_cache) > 400:
            self._ref_cache.clear()
        with world.harness():
            try:
                t = self.build(spec, MemoryLoader(), world)
            except Exception as e:      # noqa: BLE001
                r = [outcome_of_exc(e), None]
            else:
                try:
                    r = [["ok"], ["ok", t.render(**render_args())]]
                except Exception as e:  # noqa: BLE001
                    r = [["ok"], outcome_of_exc(e)]
        if not spec.get("file"):
            self._ref_cache[key] = r
        return r

    def reconfigure(self, t, spec_from: dict, spec_to: dict):
        """Give the live instance t (built from spec_from) the options and
        the body of spec_to."""
        cf, ct = self._config(spec_from), self._config(spec_to)
        for k in sorted(set(cf) | set(ct)):
            if cf.get(k) != ct.get(k):
                setattr(t, k, ct[k])
        t.write(spec_to["body"])
        return t

    def reference_reconf(self, spec_from: dict, spec_to: dict,
                         world: World) -> list:
        """Render outcome of the same reconfiguration without any cache."""
        from chameleon.loader import MemoryLoader
        with world.harness():
            try:
                t = self.build(spec_from, MemoryLoader(), world)
            except Exception:       # noqa: BLE001
                return ["skipped"]      # (nothing to reconfigure)
            try:
                t.render(**render_args())
            except Exception:       # noqa: BLE001
                pass
            try:
                t = self.reconfigure(t, spec_from, spec_to)
                return ["ok", t.render(**render_args())]
            except Exception as e:      # noqa: BLE001
                return outcome_of_exc(e)

    # -- generation ------------------------------------------------------------
    def gen(self, ch: Choices, tier: str) -> dict:
        if tier == "thorough" and ch.coin(0.004):
            return self.gen_realproc(ch)
        wl = ch.weighted([(4, "crash"), (3, "keys"), (4, "writers")], "wl")
        block = ch.pick([0, 0, 64, 512, 512, 1024, 4096], "block")
        case = {"wl": wl, "block": block, "plan": {}, "snaps": []}
        if wl == "keys":
            fam = ch.pick(FAMILY, "family")
            name, va, vb, body, ca, cb = fam
            common = {}
            # a few shared, unrelated options so that the pair really
            # differs in exactly one input
            if ch.coin(0.3):
                common["trim_attribute_space"] = True
            if name in ("body_near", "body_class_boundary"):
                ta = {"cls": ca, "body": va, "config": dict(common)}
                tb = {"cls": cb, "body": vb, "config": dict(common)}
            elif name == "body":
                ba, bb = ch.sample(POOL, 2)
                ta = {"cls": ca, "body": ba, "config": dict(common)}
                tb = {"cls": cb, "body": bb, "config": dict(common)}
            else:
                ta = {"cls": ca, "body": body, "config": dict(common)}
                tb = {"cls": cb, "body": body, "config": dict(common)}
                if name not in ("class", "class_module", "body_near",
                                "body_class_boundary", "class_level"):
                    # None means "option not passed at all"
                    if va is not None:
                        ta["config"][name] = va
                    if vb is not None:
                        tb["config"][name] = vb
            if name == "directory":
                for t_, d_ in ((ta, va), (tb, vb)):
                    t_["config"].pop("directory", None)
                    t_["file"] = "index.pt"
                    t_["dir"] = d_
            if name not in ("class", "class_module", "filename",
                            "directory", "body_class_boundary",
                            "class_level") and \
                    ch.coin(0.35) and not any(
                        0xD800 <= ord(c_) <= 0xDFFF
                        for c_ in ta["body"] + tb["body"]):
                # (the last one: a legal name so long that the entry's name
                # comes close to the file system's limit)
                fn = ch.pick(["index.pt", "a_rather_long_template_name.pt",
                              "x" * 200 + ".pt"])
                for i, t in enumerate((ta, tb)):
                    t["cls"] = "PageTemplateFile"
                    t["file"] = fn
                    # same directory is only possible when the bodies agree
                    t["dir"] = "d" if ta["body"] == tb["body"] and \
                        ch.coin(0.5) else "d%d" % i
                if ta["dir"] == "d":
                    tb["dir"] = "d"
            if ch.coin(0.5):
                ta, tb = tb, ta
            case["family"] = name
            case["templates"] = [ta, tb]
            mode = ch.pick(["same", "restart", "two"], "mode")
            if name in ("process_builtins", "package_version",
                        "package_version_late"):
                mode = "restart"    # (one snapshot / installation per process)
            # a live instance is given the other configuration (attribute
            # assignment, then write(body)): possible when both are string
            # templates of one class and the target passes every option in
            # which they differ
            ca_, cb_ = ta["config"], tb["config"]
            if name not in ("process_builtins", "package_version",
                            "package_version_late",
                            "expression_types_instance") and \
                    "file" not in ta and ta["cls"] == tb["cls"] and \
                    all(k in cb_ and cb_[k] is not None
                        for k in set(ca_) | set(cb_) if ca_.get(k) != cb_.get(k)) \
                    and ch.coin(0.35):
                mode = "reconf"
            case["mode"] = mode
            full = [["construct", 0], ["render", 0], ["construct", 1],
                    ["render", 1], ["render", 0]]
            if name == "expression_types_instance":
                # (no process ever has both: the second one comes to be
                # where the first one was)
                full = [["construct", 0], ["render", 0], ["drop", 0],
                        ["construct", 1], ["render", 1]]
            if mode == "same":
                case["phases"] = [{"procs": [{"name": "A", "ops": full}],
                                   "sched": {"kind": "fifo"}}]
            elif mode == "reconf":
                case["phases"] = [
                    {"procs": [{"name": "A", "ops": [
                        ["construct", 0], ["render", 0], ["reconf", 0],
                        ["render", 1]]}], "sched": {"kind": "fifo"}},
                    {"procs": [{"name": "B", "ops": [
                        ["construct", 1], ["render", 1], ["construct", 0],
                        ["render", 0]] if ch.coin(0.5) else full[:4]}],
                     "sched": {"kind": "fifo"}}]
            elif mode == "restart":
                case["phases"] = [
                    {"procs": [{"name": "A", "ops": full[:2]}],
                     "sched": {"kind": "fifo"}},
                    {"procs": [{"name": "B", "ops": full[2:]}],
                     "sched": {"kind": "fifo"}}]
            elif name == "expression_types_instance":
                case["phases"] = [
                    {"procs": [{"name": "A", "ops": full[:2]},
                               {"name": "B", "ops": full[3:]}],
                     "sched": self._gen_sched(ch, 2, 60)},
                    {"procs": [{"name": "C", "ops": full}],
                     "sched": {"kind": "fifo"}}]
            else:
                case["phases"] = [
                    {"procs": [{"name": "A", "ops": [["construct", 0],
                                                     ["render", 0]]},
                               {"name": "B", "ops": [["construct", 1],
                                                     ["render", 1]]}],
                     "sched": self._gen_sched(ch, 2, 60)},
                    {"procs": [{"name": "C", "ops": [["construct", 0],
                                                     ["render", 0],
                                                     ["construct", 1],
                                                     ["render", 1]]}],
                     "sched": {"kind": "fifo"}}]
            return case

        # crash / writers share the template pool
        nt = 1 if wl == "writers" or ch.coin(0.7) else 2
        temps = []
        for i in range(nt):
            body = ch.pick(POOL, "body")
            spec = {"cls": "PageTemplate", "body": body, "config": {}}
            k = ch.choose(6, "shape")
            if k == 0:
                spec["cls"] = "PageTextTemplate"
                spec["body"] = "Hello ${name}, ${len(items)} items. $${esc}\n" * (1 + ch.choose(20))
            elif k == 1:
                spec["cls"] = "PageTemplateFile"
                spec["file"] = ch.pick(["t%d.pt" % i, "index.pt",
                                        "a_rather_long_template_name.pt"])
                spec["dir"] = "d%d" % i
            elif k == 2:
                spec["config"]["strict"] = False
                spec["body"] = body + '<p tal:condition="False" tal:content="a b">x</p>'
            elif k == 3:
                spec["config"]["filename"] = "named%d.pt" % i
            temps.append(spec)
        case["templates"] = temps
        ops_all = []
        for i in range(nt):
            ops_all += [["construct", i], ["render", i]]
        if wl == "crash":
            case["phases"] = [
                {"procs": [{"name": "A", "ops": ops_all}],
                 "sched": {"kind": "fifo"}},
                {"procs": [{"name": "B", "ops": ops_all}],
                 "sched": {"kind": "fifo"}}]
            # fault placement: measured event counts differ per template, so
            # the position is drawn as a fraction and resolved at run time
            nf = ch.weighted([(1, 0), (6, 1), (2, 2)], "nfaults")
            kinds = ch.weighted([
                (5, ["crash"]), (2, ["enospc", "eio"]), (2, ["intr"]),
                (1, ["eacces", "emfile"]), (2, ["crash", "enospc", "eio",
                                                "eacces", "emfile",
                                                "intr"])], "kinds")
            faults = []
            for _ in range(nf):
                faults.append({"proc": ch.pick(["A", "A", "A", "B"]),
                               "frac": ch.choose(10_000) / 10_000.0,
                               "kfrac": ch.choose(10_000) / 10_000.0,
                               "span": ch.pick([1, 1, 1, 2, 3]),
                               "kind": ch.pick(kinds)})
            case["faults"] = faults
            case["snap_fracs"] = [ch.choose(1000) / 1000.0
                                  for _ in range(ch.choose(3))]
        else:
            same_proc = ch.coin(0.5)
            case["same_proc"] = same_proc
            n = 2 if ch.coin(0.8) else 3
            procs = []
            for j in range(n):
                procs.append({"name": "P" if same_proc else "W%d" % j,
                              "task": "w%d" % j,
                              "ops": [["construct", 0], ["render", 0]]})
            case["phases"] = [
                {"procs": procs, "sched": self._gen_sched(ch, n, 120)},
                {"procs": [{"name": "Z", "ops": [["construct", 0],
                                                 ["render", 0]]}],
                 "sched": {"kind": "fifo"}}]
            faults = []
            if ch.coin(0.4):
                faults.append({"proc": procs[0]["name"] if not same_proc
                               else "P",
                               "frac": ch.choose(10_000) / 10_000.0,
                               "kfrac": ch.choose(10_000) / 10_000.0,
                               "kind": ch.pick(["crash", "crash", "enospc",
                                                "eacces", "eio", "intr"])})
            case["faults"] = faults
            case["snap_fracs"] = [ch.choose(1000) / 1000.0
                                  for _ in range(ch.choose(3))]
        return case

    def gen_realproc(self, ch: Choices) -> dict:
        """Validation of the process stub: one writer, one crash, once in
        the simulation and once with real processes (os._exit)."""
        body = ch.pick(POOL)
        spec = {"cls": "PageTemplate", "body": body, "config": {}}
        if ch.coin(0.3):
            spec = {"cls": "PageTextTemplate", "config": {},
                    "body": "Hello ${name}, ${len(items)} items.\n" *
                    (1 + ch.choose(20))}
        return {"wl": "realproc",
                "block": ch.pick([0, 64, 512, 1024, 4096]),
                "templates": [spec],
                "phases": [{"procs": [{"name": "A", "ops": [["construct", 0],
                                                            ["render", 0]]}],
                            "sched": {"kind": "fifo"}}],
                "faults": [{"proc": "A", "kind": "crash",
                            "frac": ch.choose(10_000) / 10_000.0,
                            "kfrac": ch.choose(10_000) / 10_000.0}],
                "snap_fracs": [], "plan": {}}

    def run_realproc(self, case: dict) -> dict:
        import json
        import shutil
        import subprocess
        import sys
        import tempfile
        from ..core import VERIF_ROOT
        from ..fs import SCRATCH_BASE
        sim_case = dict(case, wl="crash")
        sim = self.run(sim_case)
        if sim.get("harness"):
            return sim
        plan = sim["summary"]["plan"]
        sim_obs = sim.get("observer_outcomes", {})
        root = tempfile.mkdtemp(prefix="verif-%07d-rp-" % os.getpid(),
                                dir=SCRATCH_BASE)
        violations = list(sim["violations"])
        detail = {}
        try:
            os.makedirs(os.path.join(root, "cache"))
            os.makedirs(os.path.join(root, "tpl"))
            env = dict(os.environ, PYTHONHASHSEED="0")
            arg = {"mode": "writer", "root": root, "plan": plan,
                   "block": case["block"], "spec": case["templates"][0]}
            w = subprocess.run([sys.executable, "-m", "sim.c15child",
                                json.dumps(arg)], cwd=VERIF_ROOT, env=env,
                               capture_output=True, text=True, timeout=600)
            crashed_real = w.returncode == 137
            if w.returncode not in (0, 137):
                return {"harness": "realproc writer failed: " +
                        w.stderr[-600:], "violations": [],
                        "digest": sim["digest"], "events": 0}
            names_real = sorted(f for f in os.listdir(os.path.join(root, "cache"))
                                if not f.startswith("__"))
            o = subprocess.run([sys.executable, "-m", "sim.c15child",
                                json.dumps({"mode": "observer", "root": root,
                                            "dir": os.path.join(root, "cache"),
                                            "spec": case["templates"][0]})],
                               cwd=VERIF_ROOT, env=env, capture_output=True,
                               text=True, timeout=600)
            line = [x for x in o.stdout.splitlines() if x.startswith("CHILD ")]
            if o.returncode != 0 or not line:
                return {"harness": "realproc observer failed: " +
                        o.stderr[-600:], "violations": [],
                        "digest": sim["digest"], "events": 0}
            real_out = json.loads(line[0][6:])["outcome"]
        finally:
            shutil.rmtree(root, ignore_errors=True)
        crashed_sim = bool(sim["stats"]["fired"].get("crash"))
        names_sim = sim.get("crash_listing")
        ref = sim.get("reference0")
        detail = {"crashed_real": crashed_real, "crashed_sim": crashed_sim,
                  "names_real": names_real, "names_sim": names_sim}
        if real_out[:2] != (ref or real_out)[:2]:
            violations.append({
                "kind": "cache-mismatch", "sig": "cache-mismatch:realproc",
                "detail": f"REAL processes: after the writer was killed at "
                          f"{plan}, a fresh process got {str(real_out)[:300]}"
                          f" but without a cache it gets {str(ref)[:300]}"})
        stub_ok = crashed_real == crashed_sim and (
            names_sim is None or not crashed_sim or
            [_HEX32.sub("H", n) for n in names_real] ==
            [_HEX32.sub("H", n) for n in names_sim])
        res = dict(sim)
        res["violations"] = violations
        res["cover"] = sorted(set(sim.get("cover", [])) | {
            "realproc-compared", "realproc-agrees" if stub_ok
            else "realproc-DISAGREES"})
        res["nontrivial"] = ["realproc:" + short_hash(case)]
        res["stats"] = dict(sim["stats"], realproc=1,
                            realproc_agree=int(stub_ok))
        if not stub_ok:
            res["harness"] = ("process stub disagrees with real processes: "
                              + str(detail))
        return res

    def _gen_sched(self, ch: Choices, ntasks: int, est_events: int) -> dict:
        k = ch.choose(10, "schedkind")
        if k == 0:
            return {"kind": "random", "seed": ch.choose(1 << 30),
                    "p": ch.pick([0.05, 0.2, 0.5])}
        if k < 8:
            # change points at a task's n-th file-system call (position as
            # a fraction of the measured number of calls of a writer)
            d = 2 + ch.choose(3)
            return {"kind": "pctacc",
                    "prios": ch.shuffle(list(range(1, ntasks + 1))),
                    "fracs": [[ch.choose(ntasks), ch.choose(100000) / 100000.0,
                               ch.choose(100000) / 100000.0]
                              for _ in range(d)]}
        d = 1 + ch.choose(3)
        return {"kind": "pct",
                "prios": ch.shuffle(list(range(1, ntasks + 1))),
                "changes": sorted(1 + ch.choose(est_events)
                                  for _ in range(d))}

    # -- execution ---------------------------------------------------------------
    def run(self, case: dict) -> dict:
        if case.get("wl") == "realproc":
            return self.run_realproc(case)
        self.quiesce()
        log = EventLog()
        self._counts = None
        needs_counts = case.get("faults") or any(
            ph.get("sched", {}).get("kind") == "pctacc" and
            "fracs" in ph["sched"] for ph in case.get("phases", ()))
        if needs_counts and not case.get("_dry"):
            self._counts = self._dry_counts(case)
        world = World(log, plan={}, block=case.get("block", 4096), tag="c15")
        self._cur_world = world
        world.pyc_steps = True
        world.activate()
        try:
            return self._run(case, world, log)
        finally:
            world.close()

    def _resolve_plan(self, case: dict, world: World, phase_no: int,
                      dry_counts: dict) -> None:
        """Turn fractional fault positions into '<proc>#<n>' plan keys using
        per-process event counts measured by a fault-free dry run."""
        for f in case.get("faults", ()):
            if "at" in f:
                world.plan[f"{f['proc']}#{f['at']}"] = {
                    "kind": f["kind"], "span": f.get("span", 1)}
                continue
            at = self._position(f, dry_counts)
            if at:
                world.plan[f"{f['proc']}#{at}"] = {"kind": f["kind"],
                                                   "span": f.get("span", 1)}

    @staticmethod
    def _position(f: dict, kinds_by_proc: dict) -> int:
        """1-based index of the fs call of f['proc'] at which the fault
        fires.  The *kind* of call is drawn first (uniformly over the kinds
        this process performs and at which the fault applies), then the
        occurrence within that kind - so a lone 'rename' is hit as often
        as one of eighty 'write's."""
        from ..fs import APPLICABLE
        kinds = kinds_by_proc.get(f["proc"], [])
        if not kinds:
            return 0
        if f["kind"] == "intr":
            present = sorted(set(kinds))
        elif f["kind"] == "crash":
            present = sorted(set(kinds)) + ["<end>"]
        else:
            present = sorted(set(kinds) & APPLICABLE[f["kind"]])
        if not present:
            return 0
        kf = f.get("kfrac", f["frac"])
        kind = present[min(int(kf * len(present)), len(present) - 1)]
        if kind == "<end>":
            return len(kinds) + 1
        idx = [i + 1 for i, k in enumerate(kinds) if k == kind]
        return idx[min(int(f["frac"] * len(idx)), len(idx) - 1)]

    def _dry_counts(self, case: dict) -> dict:
        key = short_hash([case["templates"], case["phases"], case["block"]])
        c = getattr(self, "_dry", None)
        if c is None:
            c = self._dry = {}
        if key in c:
            return c[key]
        dry = copy.deepcopy(case)
        dry["faults"] = []
        dry["snap_fracs"] = []
        dry["_dry"] = True
        for ph in dry["phases"]:
            ph["sched"] = {"kind": "fifo"}
        res = self.run(dry)
        if len(c) > 300:
            c.clear()
        c[key] = res["proc_kinds"]
        return c[key]

    def _run(self, case: dict, world: World, log: EventLog) -> dict:
        from chameleon.loader import ModuleLoader
        os.makedirs(world.path("cache"))
        os.makedirs(world.path("tpl"))
        temps = case["templates"]
        for spec in temps:
            if spec.get("file"):
                d = world.path("tpl", spec.get("dir", "d"))
                os.makedirs(d, exist_ok=True)
                with real.open(os.path.join(d, spec["file"]), "w") as f:
                    f.write(spec["body"])
        violations: list[dict] = []
        stats = {"fired": {}, "skipped": {}, "ops": 0, "observers": 0}
        cover: set[str] = set()
        refs = [self.reference(s, world) for s in temps]
        reconf_ref = None
        if case.get("mode") == "reconf":
            reconf_ref = self.reference_reconf(temps[0], temps[1], world)
        is_dry = case.get("_dry", False)

        if case.get("faults") and not is_dry:
            counts = self._counts
            self._resolve_plan(case, world, 0, counts)
            total = sum(len(v) for v in counts.values()) or 1
            snaps_at = sorted({1 + int(fr * total)
                               for fr in case.get("snap_fracs", ())})
        else:
            snaps_at = []
        for k, v in case.get("plan", {}).items():
            world.plan[k] = v

        snapshots: list[tuple[str, str]] = []    # (label, dir)

        def take_snapshot(label: str) -> None:
            if is_dry:
                return
            name = "snap%d" % len(snapshots)
            world.snapshot("cache", name)
            snapshots.append((label, name))

        def check_entries(where: str) -> None:
            """Every final-named entry is a complete hand-over."""
            cdir = world.path("cache")
            for fn in sorted(real.listdir(cdir)):
                if not fn.endswith(".py"):
                    continue
                p = os.path.join(cdir, fn)
                try:
                    with real.open(p, "rb") as f:
                        data = f.read()
                except OSError:
                    continue
                cands = world.final_candidates.get(p, []) + \
                    world.complete.get(p, [])
                if data not in cands:
                    kind = "torn-entry"
                    if any(c.startswith(data) for c in cands):
                        kind = "truncated-entry"
                    violations.append({
                        "kind": kind, "sig": kind,
                        "detail": f"{where}: cache entry {fn} holds "
                                  f"{len(data)} bytes that no writer handed "
                                  f"over as a complete module "
                                  f"(complete sizes: "
                                  f"{sorted(len(c) for c in cands)})"})

        def after_event(kind: str, path) -> None:
            if kind == "renamed":
                check_entries("after rename")
            if snaps_at and world.total_events in snaps_at:
                take_snapshot("event%d" % world.total_events)

        crash_listing: list = []

        def on_crash(proc, label: str) -> None:
            check_entries("at crash " + label)
            take_snapshot("crash:" + label)
            crash_listing[:] = sorted(
                f for f in real.listdir(world.path("cache"))
                if not f.startswith("__"))

        world.after_event = after_event
        world.on_crash = on_crash

        proc_events: dict[str, int] = {}
        op_results: list = []
        used: set[int] = set()
        sched_sigs = []
        self._tokens = 0

        for phno, ph in enumerate(case["phases"]):
            # (the processes of one concurrent phase are siblings forked
            # from one parent; a later phase is a restart)
            world.pyc_group = phno
            # (a process draws its token when it imports chameleon)
            self._new_token()
            spec = ph.get("sched", {"kind": "fifo"})
            if spec.get("kind") == "pctacc" and "fracs" in spec:
                # the kind of call first (a lone rename as likely as one of
                # eighty writes), then the occurrence within that kind
                counts = self._counts or {}
                pts = []
                for fr in spec["fracs"]:
                    t, kf, of = fr[0], fr[1], fr[2] if len(fr) > 2 else fr[1]
                    pname = ph["procs"][t % len(ph["procs"])]["name"]
                    kinds = counts.get(pname) or max(
                        counts.values(), key=len, default=[])
                    if not kinds:
                        continue
                    # steps around the moment an entry becomes visible to
                    # others carry in-flight state: weight them threefold
                    present = []
                    for k_ in sorted(set(kinds)):
                        present += [k_] * (3 if k_ in (
                            "rename", "pyc", "load-read", "close") else 1)
                    kind = present[min(int(kf * len(present)),
                                       len(present) - 1)]
                    idx = [i + 1 for i, k_ in enumerate(kinds) if k_ == kind]
                    pts.append([t, idx[min(int(of * len(idx)), len(idx) - 1)],
                                "fs"])
                spec = {"kind": "pctacc", "prios": spec["prios"],
                        "points": pts}
            sched = Scheduler(make_policy(spec), log, max_steps=50_000)
            sched.on_switch = world.on_switch
            world.sched = sched
            procs: dict[str, object] = {}
            loader_by_proc: dict[str, object] = {}
            for pd in ph["procs"]:
                pname = pd["name"]
                if pname not in procs:
                    procs[pname] = world.new_proc(pname)
                    # (process ids start over with every restart - a
                    # container's main process is number 1 every time)
                    procs[pname].pid = 100 + len(procs) - 1
                    loader_by_proc[pname] = ModuleLoader(world.path("cache"))
                proc = procs[pname]

                partial: list = []

                def body(pd=pd, proc=proc, out=partial):
                    mine: dict[int, object] = {}
                    for op, tid in pd["ops"]:
                        fired_before = sum(world.fired.values())
                        try:
                            if op == "drop":
                                mine.pop(tid, None)
                                import gc
                                gc.collect()
                                r = ["ok"]
                            elif op == "reconf" and tid not in mine:
                                r = ["skipped"]
                            elif op == "reconf":
                                used.add(1 - tid)
                                mine[1 - tid] = self.reconfigure(
                                    mine[tid], temps[tid], temps[1 - tid])
                                del mine[tid]
                                r = ["ok", mine[1 - tid].render(
                                    **render_args())]
                            elif op == "construct" or tid not in mine:
                                used.add(tid)
                                mine[tid] = self.build(
                                    temps[tid], loader_by_proc[proc.name],
                                    world)
                                r = ["ok"]
                                if op == "render":
                                    r = ["ok", mine[tid].render(**render_args())]
                            else:
                                r = ["ok", mine[tid].render(**render_args())]
                        except SimCrash:
                            out.append([op, tid, ["crashed"], False])
                            raise
                        except (Exception, KeyboardInterrupt) as e:  # noqa
                            r = outcome_of_exc(e)
                            if isinstance(e, OSError):
                                r.append(e.errno)
                        out.append([op, tid, r,
                                    sum(world.fired.values()) > fired_before])
                    return out
                t = sched.spawn(pd.get("task", pname), body, proc)
                t.pd = pd
                t.partial = partial
            sched.run(timeout=60)
            world.sched = None
            if sched.failure is not None:
                fk = type(sched.failure).__name__
                if fk == "Deadlock":
                    violations.append({"kind": "deadlock", "sig": "deadlock",
                                       "detail": str(sched.failure)})
                else:
                    return {"harness": f"{fk}: {sched.failure}",
                            "digest": log.digest(), "violations": [],
                            "events": log.count}
            sched_sigs.append(sched.switch_sig.hexdigest()[:12])
            for t in sched.tasks:
                stats["ops"] += len(t.pd["ops"])
                if t.exc is not None and not isinstance(t.exc, SimCrash):
                    return {"harness": "task died: %r" % (t.exc,),
                            "digest": log.digest(), "violations": [],
                            "events": log.count}
                results = t.partial
                for op, tid, r, faulted in results:
                    op_results.append([t.name, op, tid, r[:2], faulted])
                    log.add("op", t.name, op, tid, canonical(r)[:300],
                            faulted)
                    if r == ["crashed"] or op == "drop":
                        continue
                    ref = refs[tid][0] if (op == "construct" or
                                           refs[tid][0] != ["ok"]) \
                        else refs[tid][1]
                    if op == "reconf":
                        ref = reconf_ref
                        cover.add("reconfigured")
                    if r[0] == "exc" and faulted and r[1] in (
                            "OSError", "PermissionError", "FileNotFoundError",
                            "KeyboardInterrupt"):
                        cover.add("relaxed:" + r[1])
                        continue        # the op that met the fault may fail
                    if r[:3] != ref[:3]:
                        violations.append(self._mismatch(
                            case, "proc " + t.name, op, tid, r, ref))
            for p in procs.values():
                proc_events[p.name] = proc_events.get(p.name, 0) + p.fs_calls
            check_entries("end of phase %d" % phno)
            take_snapshot("phase%d" % phno)

        # observers: fresh processes on snapshot copies
        # (one per template where no process can have both)
        one_each = case.get("family") == "expression_types_instance"
        if not is_dry:
            for label, name in snapshots:
                obs = world.new_proc("O" + name)
                with world.as_proc(obs):
                    loader = ModuleLoader(world.path(name))
                    for tid in sorted(used):
                        stats["observers"] += 1
                        if one_each:
                            self._new_token()
                        r = self._attempt(temps[tid], loader, world)
                        log.add("obs", label, tid, canonical(r)[:300])
                        ref = refs[tid][1] if refs[tid][0] == ["ok"] \
                            else refs[tid][0]
                        if r[:3] != ref[:3]:
                            violations.append(self._mismatch(
                                case, "observer@" + label, "render", tid, r,
                                ref))
            # liveness: the real directory, faults over, first attempt
            fin = world.new_proc("FIN")
            with world.as_proc(fin):
                loader = ModuleLoader(world.path("cache"))
                for tid in range(len(temps)):
                    if one_each:
                        self._new_token()
                    r = self._attempt(temps[tid], loader, world)
                    log.add("fin", tid, canonical(r)[:300])
                    ref = refs[tid][1] if refs[tid][0] == ["ok"] \
                        else refs[tid][0]
                    if r[:3] != ref[:3]:
                        violations.append(self._mismatch(
                            case, "first attempt after faults stopped",
                            "render", tid, r, ref))
            leftovers = [f for f in real.listdir(world.path("cache"))
                         if f.endswith(".tmp")]
            if leftovers:
                cover.add("leftover-tmp")

        for k, v in world.fired.items():
            stats["fired"][k] = v
        for k, v in world.skipped.items():
            stats["skipped"][k] = v
        for k in world.event_kinds:
            cover.add("ev:" + k)
        for s in world.crash_sites:
            cover.add("crash@" + s.split("@")[0])

        # what makes this run count as non-trivial
        nontrivial = []
        wl = case["wl"]
        if wl == "keys":
            if refs[0] != refs[1] or case.get("family") in (
                    "encoding", "extra_builtins_value"):
                nontrivial.append("keys:%s:%s:%s" % (
                    case.get("family"), case.get("mode"),
                    short_hash(case["templates"])[:6]))
        elif wl == "crash":
            for s in world.crash_sites:
                nontrivial.append("crash:%s:b%s:%s" % (
                    s, case["block"], short_hash(case["templates"])[:6]))
            for k in world.fired:
                if k != "crash":
                    nontrivial.append("fault:%s:b%s:%s" % (
                        k, case["block"], short_hash(case["templates"])[:6]))
        else:
            if sched_sigs and log.count:
                nontrivial.append("writers:%s:%s" % (
                    sched_sigs[0], short_hash([case["templates"],
                                               case.get("same_proc")])[:6]))
        # dedupe violations by sig, keep first detail
        seen = set()
        uniq = []
        for v in violations:
            if v["sig"] not in seen:
                seen.add(v["sig"])
                uniq.append(v)
        return {"violations": uniq, "digest": log.digest(),
                "events": world.total_events, "stats": stats,
                "cover": sorted(cover), "nontrivial": nontrivial,
                "proc_events": proc_events,
                "proc_kinds": self._kinds_by_proc(world),
                "crash_listing": list(crash_listing) or None,
                "reference0": (refs[0][1] if refs[0][0] == ["ok"]
                               else refs[0][0]),
                "summary": {"ops": op_results[:8],
                            "snapshots": [s[0] for s in snapshots],
                            "plan": dict(world.plan)}}

    @staticmethod
    def _kinds_by_proc(world) -> dict:
        out: dict[str, list] = {}
        for p, k in world.trace:
            out.setdefault(p, []).append(k)
        return out

    def _attempt(self, spec, loader, world) -> list:
        try:
            t = self.build(spec, loader, world)
        except Exception as e:      # noqa: BLE001
            return outcome_of_exc(e)
        try:
            return ["ok", t.render(**render_args())]
        except Exception as e:      # noqa: BLE001
            return outcome_of_exc(e)

    def _mismatch(self, case, who, op, tid, got, ref) -> dict:
        wl = case["wl"]
        if wl == "keys":
            sig = "key-collision:" + str(case.get("family"))
            kind = "key-collision"
        else:
            sig = "cache-mismatch:" + wl
            kind = "cache-mismatch"
        return {"kind": kind, "sig": sig,
                "detail": f"{who}: {op} of template {tid} with the cache "
                          f"gave {str(got)[:300]} but without a cache it "
                          f"gives {str(ref)[:300]}"}

    # -- minimisation ------------------------------------------------------------
    def shrink_candidates(self, case: dict):
        c = case
        # freeze fractional fault positions first so that removing things
        # does not move them
        if any("at" not in f for f in c.get("faults", ())):
            try:
                counts = self._dry_counts(c)
                d = copy.deepcopy(c)
                for f in d["faults"]:
                    at = self._position(f, counts)
                    if at:
                        f["at"] = at
                yield d
            except Exception:
                pass
        if c.get("snap_fracs"):
            d = copy.deepcopy(c)
            d["snap_fracs"] = []
            yield d
        for i in range(len(c.get("faults", ()))):
            d = copy.deepcopy(c)
            del d["faults"][i]
            yield d
            if c["faults"][i].get("span", 1) > 1:
                d = copy.deepcopy(c)
                d["faults"][i]["span"] -= 1
                yield d
        for pi in range(len(c["phases"])):
            if len(c["phases"]) > 1:
                d = copy.deepcopy(c)
                del d["phases"][pi]
                yield d
            ph = c["phases"][pi]
            if ph.get("sched", {}).get("kind") != "fifo":
                d = copy.deepcopy(c)
                d["phases"][pi]["sched"] = {"kind": "fifo"}
                yield d
            if ph.get("sched", {}).get("kind") in ("pct", "pctacc"):
                key = "changes" if "changes" in ph["sched"] else "fracs"
                ch = ph["sched"].get(key, [])
                for j in range(len(ch)):
                    d = copy.deepcopy(c)
                    del d["phases"][pi]["sched"][key][j]
                    yield d
            for qi in range(len(ph["procs"])):
                if len(ph["procs"]) > 1:
                    d = copy.deepcopy(c)
                    del d["phases"][pi]["procs"][qi]
                    yield d
                ops = ph["procs"][qi]["ops"]
                for oi in range(len(ops) - 1, -1, -1):
                    if len(ops) > 1:
                        d = copy.deepcopy(c)
                        del d["phases"][pi]["procs"][qi]["ops"][oi]
                        yield d
        if c.get("block") not in (0, 4096):
            d = copy.deepcopy(c)
            d["block"] = 4096
            yield d
        for ti, t in enumerate(c["templates"]):
            for k in list(t.get("config", {})):
                if c.get("family") == k:
                    continue
                d = copy.deepcopy(c)
                del d["templates"][ti]["config"][k]
                yield d
            if c["wl"] != "keys" and len(t["body"]) > 40 and \
                    t["body"] != B_PLAIN2:
                d = copy.deepcopy(c)
                d["templates"][ti]["body"] = B_PLAIN2
                yield d

    def sample(self, case: dict, res: dict) -> dict:
        c = copy.deepcopy(case)
        for t in c["templates"]:
            if len(t["body"]) > 160:
                t["body"] = t["body"][:160] + "...(%d chars)" % len(t["body"])
        return {"case": c, "outcome": res.get("summary"),
                "violations": [v["sig"] for v in res.get("violations", ())]}

    def evidence(self, agg: dict, tier: str) -> dict:
        cover = agg["cover"]
        return {
            "rule": (
                "cases are drawn from the run seed: workload in {crash, keys, "
                "writers}, templates from a pool (string, text, file, "
                "non-strict, named), write-buffer block size in {unbounded, "
                "64, 512, 1024, 4096}, fault positions as a fraction of the "
                "process's measured file-system call count, PCT or random "
                "schedules for concurrent phases. A case is non-trivial and "
                "distinct by: keys - the pair's two no-cache references "
                "differ (or the option is runtime-only), keyed by (input, "
                "mode, template pair); crash - a crash or errno fault "
                "actually fired, keyed by (event kind @ per-process call "
                "index, block size, template); writers - keyed by the hash "
                "of the context-switch sequence and the template."),
            "distinct": {
                "event_kinds_reached": [k for k in cover if k.startswith("ev:")],
                "crash_event_kinds": [k for k in cover if k.startswith("crash@")],
            },
            "probes": {k: v for k, v in cover.items()
                       if k.startswith(("relaxed:", "leftover", "crash@"))},
            "real_vs_stub": {
                "real": ["all of chameleon (parse, compile, codegen, "
                         "ModuleLoader.build/get/_load, render)",
                         "importlib SourceFileLoader and py_compile (each one "
                         "atomic step)",
                         "kernel rename/unlink/open on a scratch directory "
                         "under /dev/shm", "threads"],
                "stub": ["who runs next (baton scheduler)",
                         "process boundary: threads with per-process module "
                         "table and per-process lock, crash = SimCrash + all "
                         "later fs calls of that process refused",
                         "user-space write buffer of the cache file "
                         "(block-wise write-behind)",
                         "tempfile names (deterministic counter)"]},
            "assumptions": [
                "durability model is process crash (kill -9 / os._exit): "
                "what write(2) accepted survives, rename is atomic; power "
                "loss is out of model",
                "py_compile and the import of a cache module are atomic "
                "steps (their internal writes use importlib's own "
                "write-to-temp-then-replace)"],
            "extra": {"real_process_validations": agg["stats"].get("realproc", 0),
                      "real_process_validations_agreeing":
                          agg["stats"].get("realproc_agree", 0),
                      "ops_executed": agg["stats"].get("ops", 0),
                      "observer_constructions": agg["stats"].get("observers", 0)},
        }


CHECK = C15()
