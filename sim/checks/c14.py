"""C14 - rendering is deterministic, side-effect free on its inputs, and
thread-safe.

(a) schedules: 2-3 real threads under the baton scheduler share template
    objects (eagerly compiled string templates, file templates whose first
    use compiles them, a template loader, templates backed by the on-disk
    module loader) and render / list macros / use macros / load by name.
    Every line of chameleon's shared-state modules and of the generated
    render functions is a pre-emption point; PCT picks the few switches.
    Each call must return what it returns when run alone on a fresh,
    separately compiled object graph; caller-owned arguments must be
    unchanged; nobody may deadlock.

(b) histories and processes: call sequences on one instance (A, B, A) must
    equal fresh instances; the same workload in fresh interpreters under
    other PYTHONHASHSEED values (with allocator noise first, so id()s move)
    must give byte-identical output.
"""
from __future__ import annotations

import copy
import json
import os
import re
import subprocess
import sys

from .. import trace
from ..chamsim import import_chameleon
from ..core import (VERIF_ROOT, Choices, EventLog, Scheduler, WouldBlock,
                    canonical, make_policy, short_hash)
from ..fs import SCRATCH_BASE, World, real
from .base import CheckBase
from .c15 import norm_msg

# -- template pool ------------------------------------------------------------

S_GLOBAL = (
    '<div tal:define="global g name">'
    '<ul><li tal:repeat="i items">${repeat.i.number}/${len(items)}:${i}-${g}${y()}</li></ul>'
    '<p tal:condition="exists: leak">LEAK ${leak}</p>'
    '<p tal:condition="exists: total">LEAK2 ${total}</p>'
    '<p tal:condition="exists: i">LEAK3 ${i}</p></div>')
S_MACRO = (
    '<div><p metal:define-macro="box">[${title | \'no-title\'} '
    '<span metal:define-slot="body">default ${name}</span>]</p>'
    '<div metal:use-macro="template.macros[\'box\']" tal:define="title name">'
    '<b metal:fill-slot="body">filled ${name} ${y()}</b></div>'
    '<p tal:condition="exists: g">LEAK ${g}</p></div>')
S_CODE = (
    '<div><?python total = sum(items); leak = name ?>'
    '<span tal:switch="total % 3"><b tal:case="0">zero</b><b tal:case="1">one</b>'
    '<b tal:case="default">other</b></span>'
    '<i tal:on-error="string:err-${name}">${y()}${1/0 if name.endswith(\'1\') else name}</i>'
    '${total}<p tal:condition="exists: error">LEAK ${error.type}</p></div>')
S_I18N = (
    '<div i18n:domain="d"><p i18n:translate="">Hello <b i18n:name="who">${name}</b> and '
    '<i i18n:name="count">${len(items)}</i>${y()} more</p>'
    '<p tal:attributes="title name; class string:c-${items[0]}" tal:content="structure markup">x</p></div>')
S_NESTED = (
    '<table><tr tal:repeat="row items"><td tal:repeat="col items" '
    'tal:attributes="class repeat.col.even and \'e\' or \'o\'">${row}*${col}=${row*col}${y()}'
    '<b tal:condition="repeat.row.end and repeat.col.end" tal:define="global done name">end-${done}</b>'
    '</td></tr></table>')
S_IMP1 = ('<p tal:define="m import: os.path">${m.__name__} '
          '${y()}${name}</p>')
S_IMP2 = ('<p tal:define="m import: sys.path">${type(m).__name__} ${y()}${name}'
          '<b tal:define="global leak name" tal:content="leak">x</b></p>')
S_GMACRO = (
    '<div tal:define="global g name"><p metal:define-macro="m">M-${name}${y()}</p>'
    '<span metal:use-macro="template.macros[\'m\']">x</span>${y()}<b>${g}</b>'
    '<i tal:define="global h items[0]" tal:content="h">x</i>'
    '<span metal:use-macro="template.macros[\'m\']">x</span><u>${h}-${g}</u></div>')
S_ERR = ('<ul><li tal:repeat="i items">${i}:${100 // (i - 3)}${y()}</li>'
         '<li tal:condition="not: items[0] - 2">${missing_name}</li></ul>')
# i18n:attributes naming attributes the element does not carry, more than
# one message id in one attribute list
S_I18NATTR = ('<div i18n:domain="d"><img src="a.png" i18n:attributes="title; '
              'alt; longdesc" /><a href="#" title="T" lang="x" '
              'i18n:attributes="title t-id; lang l-id; rel">${name}${y()}</a></div>')
S_NS = ('<br xmlns:tal="urn:example:my-own-vocabulary" tal:role="x" />'
        '<p xmlns:q="urn:q" q:a="1">${name}${y()}</p>')
# a template that is given an extra builtin, and one that uses the same name
# as an ordinary variable (what one template was configured with must not
# change how another one is compiled)
S_XB = '<p>${helper}-${name}${y()}</p>'
S_USESVAR = "<p>${helper | 'none'}-${name}${y()}</p><b tal:condition=\"exists: helper\">has</b>"
# encoded input: byte strings as content and as message ids (the helper
# functions render() sets up for them depend on its own arguments only)
S_ENC = ('<div i18n:domain="e"><p i18n:translate="">Bonjour '
         '<b i18n:name="who">${name}</b>${y()}</p><i tal:content="raw">x</i>'
         '<u i18n:translate="" tal:content="raw">x</u>${y()}'
         '<p i18n:translate="">caf\u00e9 ${name}</p></div>')
# a package-relative name, through the repository's own test package
PKG_SPEC = "chameleon.tests:inputs/hello_world.pt"
STRING_OPTIONS = {"xb": {"extra_builtins": {"helper": "EB"}},
                  "enc": {"encoding": "utf-8"}}
# attribute-then-item lookup on objects of one type of which some have the
# attribute and all have the item (what one render saw of a type must not
# change how the next one treats another instance)
S_ROW = '<p>${row.title}-${name}${y()}</p><i tal:content="row.title | \'no\'">x</i>'
# a container written as a literal and changed by the template: a fresh
# object at every evaluation, for every render and thread
S_MUTLIT = ('<div tal:define="seen []; d {\'k\': 0}"><?python seen.append(name); d[\'k\'] += 1 ?>'
            '<p>${len(seen)}:${seen[0]}:${d[\'k\']}${y()}</p>'
            '<i tal:repeat="x [1, 2]" tal:content="x">x</i></div>')
STRINGS = {"mutlit": S_MUTLIT, "row": S_ROW, "xb": S_XB, "usesvar": S_USESVAR, "i18nattr": S_I18NATTR, "err": S_ERR, "ns": S_NS, "gmacro": S_GMACRO, "imp1": S_IMP1, "imp2": S_IMP2, "global": S_GLOBAL, "macro": S_MACRO, "code": S_CODE,
           "i18n": S_I18N, "nested": S_NESTED, "enc": S_ENC}

F_LIB = (
    '<div><p metal:define-macro="m">lib:${name}<i metal:define-slot="s">d</i>${y()}</p>'
    '<p metal:define-macro="n" tal:define="global fromlib name">n:${name}</p></div>')
F_PAGE = (
    '<div tal:define="lib load: lib.pt"><span metal:use-macro="lib.macros[\'m\']">'
    '<b metal:fill-slot="s">${name}${y()}</b></span>'
    '<p tal:condition="exists: fromlib">LEAK ${fromlib}</p></div>')
F_MAIN = (
    '<html><body tal:define="global who name"><h1>${who}</h1>'
    '<div metal:use-macro="load: lib.pt" />'
    '<ul><li tal:repeat="i items" tal:content="i">x</li></ul>${y()}</body></html>')
F_SELF = (
    '<div><p metal:define-macro="a">A-${name}<span metal:define-slot="x">dx</span></p>'
    '<p metal:define-macro="b">B-${name}</p>'
    '<div metal:use-macro="template.macros[\'a\']"><i metal:fill-slot="x">${y()}fx-${name}</i></div></div>')
F_XPAGE = ('<div><span metal:use-macro="load: part.pt">x</span>${name}</div>')
F_I18N = (
    '<div i18n:domain="d"><p i18n:translate="">Hi <b i18n:name="who">${name}</b> and '
    '<i i18n:name="n">${len(items)}</i>${y()} more</p><span tal:content="name">x</span>'
    '<p tal:on-error="string:e">${items[0]}</p></div>')
# fails for some arguments (items[0] == 1): the error message quotes the
# expression and its position from the tables built at compile time
F_ERR = (
    '<div tal:define="n items[0]"><p>${name}${y()}</p>\n'
    '  <b tal:content="opts[\'a\'][0] / (n - 1)">x</b>'
    '<i tal:attributes="title opts[\'b\'][\'c\'] % (n - 2)">${n}</i></div>')
# an XML-declared document: the parse mode (no HTML boolean attributes, no
# entity tables) follows the content type sniffed while reading the file
F_DOC = (
    '<?xml version="1.0" encoding="utf-8"?>\n'
    '<doc><input type="checkbox" checked="${name}" />'
    '<option tal:attributes="selected opts[\'a\'][0]; disabled None">'
    '${y()}${name}</option><br/></doc>')
FILES = {"doc.pt": F_DOC, "err.pt": F_ERR, "i18n.pt": F_I18N, "lib.pt": F_LIB, "page.pt": F_PAGE, "main.pt": F_MAIN,
         "self.pt": F_SELF,
         "x/page.pt": F_XPAGE, "x/part.pt": '<span>part-x ${name}${y()}</span>',
         "y/page.pt": F_XPAGE, "y/part.pt": '<span>part-y ${name}${y()}</span>'}
FILE_MACROS = {"lib.pt": ["m", "n"], "self.pt": ["a", "b", "c"]}
# what a deployer puts in place of a file while the process is running
FILES_V2 = {
    # (the second version defines one more macro, the third drops one)
    "self.pt": F_SELF.replace("A-${name}", "A2-${name}")
                     .replace("fx-${name}", "fx2-${name}")
                     .replace('<p metal:define-macro="b">',
                              '<p metal:define-macro="c">C2-${name}</p>'
                              '<p metal:define-macro="b">'),
    "lib.pt": F_LIB.replace("lib:${name}", "lib2:${name}")
                   .replace("n:${name}", "n2:${name}"),
    "main.pt": F_MAIN.replace("<h1>${who}</h1>", "<h2>${who}!</h2>"),
    "page.pt": F_PAGE.replace("<div tal:define=", '<div class="v2" tal:define='),
    "i18n.pt": F_I18N.replace("Hi <b", "Hello again <b"),
    "doc.pt": F_DOC.replace("<doc>", '<doc class="v2">'),
}
USE_CALLER = '<section metal:use-macro="t.macros[\'%s\']"><u metal:fill-slot="s">cs-${name}</u><u metal:fill-slot="x">cx-${name}</u></section>'
FILES_V3 = {n: b.replace("A2-", "A3-").replace("fx2-", "fx3-")
             .replace("C2-", "C3-")
             .replace('<p metal:define-macro="b">B-${name}</p>',
                      '<p metal:define-macro="d">D3-${name}</p>')
             .replace("lib2:", "lib3:").replace("n2:", "n3:")
             .replace("<h2>${who}!</h2>", "<h3>${who}?</h3>")
             .replace('class="v2"', 'class="v3"')
             .replace("Hello again", "Hello once more")
            for n, b in FILES_V2.items()}
assert all(FILES_V3[n] != FILES_V2[n] for n in FILES_V2)
_VMARK = re.compile(r"A[23]-|fx[23]-|C[23]-|D3-|lib[23]:|n[23]:|<h[23]>|[!?]</h[23]>|"
                    r'class=\"?v[23]\"?|Hello again|Hello once more')


def _pieces(text: str) -> list:
    """Tags and text runs of an output, version markers taken out."""
    return [x for x in re.split(r"(<[^>]*>)", _VMARK.sub("@", text)) if x]


def spans_both(r: list, v2: list, v3: list) -> bool:
    """Is ``r`` what a use that was under way while the file was replaced
    can show - parts of the second version and parts of the third?"""
    if r[0] != "ok":
        return False
    if version_blind(r) == version_blind(v3):
        return True
    if v2[0] != "ok" or v3[0] != "ok":
        return False
    if isinstance(r[1], list):
        # (the macros of a template are listed at one moment: all of one
        # version's, never some of each)
        return r[1] == v2[1]
    return isinstance(r[1], str) and isinstance(v2[1], str) and \
        isinstance(v3[1], str) and \
        set(_pieces(r[1])) <= set(_pieces(v2[1])) | set(_pieces(v3[1]))


def version_blind(r: list) -> list:
    """A result with the version markers of the 2nd / 3rd file contents
    taken out."""
    return [_VMARK.sub("@", x) if isinstance(x, str) else x for x in r]


def tr_stub(msgid, domain=None, mapping=None, context=None,
            target_language=None, default=None):
    text = default if default is not None else msgid
    if mapping:
        # renders the mapping in *iteration* order on purpose: a translate
        # function is allowed to look at it
        text = str(text) + "|" + ",".join(
            "%s=%s" % (k, v) for k, v in mapping.items())
    return "T(%s/%s)" % (domain, text)


_CC: dict = {"active": {}, "overlap": False}
# ... and which bodies were compiled when: [body, began, ended, completed]
_CK: dict = {"cooks": [], "n": 0}
_SUBDIR = re.compile(r"<root>/[^/\s]+/")


def exc_text(e: BaseException) -> str:
    """The message of a render error up to (not including) the dump of the
    arguments, with the sandbox directory of the object graph (run / dry /
    alone<n>) taken out: type, args, expression, file name, line, column
    and source excerpt must be what a lone render reports."""
    msg = norm_msg(str(e)).split("\n - Arguments:")[0]
    return _SUBDIR.sub("<dir>/", msg)[:700]


def fs_scratch() -> str:
    return SCRATCH_BASE


class Row:
    """Always offers the item 'title'; only odd ones have the attribute."""

    def __init__(self, k: int) -> None:
        self._k = k
        if k % 2:
            self.title = "attr-title-%d" % k

    def __getitem__(self, key):
        if key == "title":
            return "item-title-%d" % self._k
        raise KeyError(key)


class Markup:
    def __init__(self, s):
        self.s = s

    def __html__(self):
        return self.s


class C14(CheckBase):
    prop = "C14"
    level = "exploration"

    _loaded: list = []

    def __init__(self) -> None:
        self._exp_cache: dict[str, list] = {}
        self._dry_cache: dict[str, int] = {}

    def warmup(self) -> None:
        import_chameleon()
        trace.install()
        from chameleon.zpt import template as zt
        from chameleon.zpt.loader import TemplateLoader
        from chameleon.loader import ModuleLoader
        self.zt = zt
        self.TemplateLoader = TemplateLoader
        self.ModuleLoader = ModuleLoader
        # harness-side bookkeeping (not a hook in the repository): were two
        # threads ever inside cook_check of one instance at the same time?
        from chameleon.template import BaseTemplateFile
        if not getattr(BaseTemplateFile.cook_check, "_verif", False):
            orig = BaseTemplateFile.cook_check

            def cook_check(self_):
                act = _CC["active"]
                k = id(self_)
                n = act.get(k, 0)
                if n:
                    _CC["overlap"] = True
                act[k] = n + 1
                try:
                    return orig(self_)
                finally:
                    act[k] -= 1
            cook_check._verif = True        # type: ignore[attr-defined]
            BaseTemplateFile.cook_check = cook_check    # type: ignore
            from chameleon.template import BaseTemplate
            orig_cook = BaseTemplate.cook

            def cook(self_, body):
                _CK["n"] += 1
                rec = [body, _CK["n"], None, False]
                _CK["cooks"].append(rec)
                try:
                    r_ = orig_cook(self_, body)
                    rec[3] = True
                    return r_
                finally:
                    _CK["n"] += 1
                    rec[2] = _CK["n"]
            BaseTemplate.cook = cook        # type: ignore[method-assign]
        for i in (11, 12):
            case = self.gen(Choices(i), "quick")
            self.run(case)
            self.run(case)

    def budget(self, tier: str) -> dict:
        b = super().budget(tier)
        if tier != "thorough":
            b["seconds"] = 100      # schedules are the expensive kind of run
        return b

    # -- generation ------------------------------------------------------------
    def gen(self, ch: Choices, tier: str) -> dict:
        case = self._gen(ch, tier)
        if not case.get("xproc") and ch.coin(0.25):
            # One of the threads is sent an asynchronous exception (Ctrl-C
            # in a worker, a failed allocation, a cancelled request) in the
            # middle of one of its operations.  That operation may fail
            # with it; every other operation, the observer and the
            # sequential re-execution afterwards must be unaffected.
            ti = ch.choose(len(case["tasks"]))
            cached_ = any(s_["kind"] in ("cached", "cachedfile")
                          for s_ in case["shared"])
            mode = ch.weighted([(5, "access"), (3, "distinct"), (2, "raw"),
                                (2, "creturn"),
                                # (explicit lock.acquire() calls are in the
                                # module loader, if anywhere)
                                (6 if cached_ else 1, "acquire")],
                               "imode")
            case["interrupt"] = {
                "task": ti, "opi": ch.choose(len(case["tasks"][ti])),
                "mode": mode,
                "nth": 1 + ch.choose(4 if mode == "acquire" else
                                     30 if mode in ("access", "creturn") else
                                     ch.pick([12, 60, 250])),
                # (not MemoryError here: pool templates have tal:on-error
                # elements and pipes, which rightly handle an Exception
                # that lands inside them - C16 sends MemoryError)
                "exc": ch.pick(["KeyboardInterrupt", "SystemExit",
                                "KeyboardInterrupt"])}
        return case

    def _gen(self, ch: Choices, tier: str) -> dict:
        if ch.coin(0.08):
            return self.gen_xproc(ch, tier)
        if ch.coin(0.15):
            return self.gen_compilerace(ch, tier)
        if ch.coin(0.2):
            return self.gen_reloadrace(ch, tier)
        if ch.coin(0.4):
            return self.gen_lazyrace(ch, tier)
        kind = ch.weighted([(3, "string"), (4, "file"), (4, "loader"),
                            (2, "cached")], "kind")
        ntasks = 2 if ch.coin(0.7) else 3
        shared = []
        if kind == "string":
            for _ in range(1 + ch.choose(2)):
                shared.append({"kind": "string",
                               "name": ch.pick(sorted(STRINGS))})
        elif kind == "file":
            for n in ch.sample(sorted(FILES), 1 + ch.choose(2)):
                shared.append({"kind": "file", "name": n})
        elif kind == "loader":
            shared.append({"kind": "loader"})
            if ch.coin(0.4):
                shared.append({"kind": "file", "name": ch.pick(sorted(FILES))})
        else:
            shared.append({"kind": "cached", "name": ch.pick(sorted(STRINGS))})
            if ch.coin(0.5):
                shared.append({"kind": "cachedfile",
                               "name": ch.pick(sorted(FILES))})
        tasks = []
        argk = 0
        for t in range(ntasks):
            ops = []
            for _ in range(1 + ch.choose(3)):
                si = ch.choose(len(shared))
                sk = shared[si]["kind"]
                argk += 1
                if sk == "loader":
                    n = PKG_SPEC if ch.coin(0.25) else ch.pick(sorted(FILES))
                    ops.append(["load_render", si, n, argk])
                elif sk in ("file", "cachedfile") and \
                        shared[si]["name"] in FILE_MACROS and ch.coin(0.5):
                    if ch.coin(0.4):
                        ops.append(["names", si])
                    else:
                        ops.append(["use", si, ch.pick(
                            FILE_MACROS[shared[si]["name"]] + ["zz"]), argk])
                else:
                    ops.append(["render", si, argk])
            tasks.append(ops)
        sched = self._gen_sched(ch, ntasks)
        if any(sh["kind"] == "loader" for sh in shared) and ch.coin(0.35):
            # (loads of several names through one loader: short operations
            # with few shared-state lines, where uniform pre-emption at any
            # line finds more than change points at chosen ones)
            sched = {"kind": "random", "seed": ch.choose(1 << 30),
                     "p": ch.pick([0.05, 0.05, 0.2])}
        return {"shared": shared, "tasks": tasks, "sched": sched,
                "coarse": ch.coin(0.25), "observer": ch.coin(0.5),
                "obs_start": ch.choose(100000) / 100000.0
                if ch.coin(0.3) else None,
                "obs_mod": ch.pick([[1, 0], [1, 0], [2, 0], [2, 1], [3, 1]])}

    def gen_compilerace(self, ch: Choices, tier: str) -> dict:
        """Two or three threads whose first use compiles file templates at
        the same time; every function entry of the compile-side modules is
        a yield point and the change points favour code-generation steps."""
        names = ch.sample(["i18n.pt", "self.pt", "lib.pt", "main.pt",
                           "page.pt", "err.pt"], 1 + ch.choose(2))
        if "i18n.pt" not in names and ch.coin(0.6):
            names[0] = "i18n.pt"
        elif "err.pt" not in names and ch.coin(0.5):
            names[0] = "err.pt"
        shared = [{"kind": "file", "name": n} for n in names]
        tasks = [[["render", t % len(shared), t + 1]]
                 for t in range(2 if ch.coin(0.6) else 3)]
        d = 1 + ch.choose(3)
        return {"shared": shared, "tasks": tasks, "coarse": True,
                "focus": True, "observer": False,
                "sched": {"kind": "pct",
                          "prios": ch.shuffle(list(range(1, len(tasks) + 1))),
                          "fracs": [[ch.choose(100000) / 100000.0,
                                     ch.coin(0.7)] for _ in range(d)]}}

    def gen_lazyrace(self, ch: Choices, tier: str) -> dict:
        """The first, lazily compiling use of one shared file template (or
        of one name through a shared loader) by three threads; change
        points only at source lines that touch shared state."""
        via_loader = ch.coin(0.3)
        name = ch.pick(["self.pt", "lib.pt", "page.pt", "main.pt",
                        "x/page.pt", "doc.pt", "doc.pt"])
        shared = [{"kind": "loader"}] if via_loader else \
            [{"kind": ch.pick(["file", "cachedfile", "cachedfile"]),
              "name": name}]
        tasks = []
        ntasks = 3 if ch.coin(0.6) else 2
        for t in range(ntasks):
            ops = []
            for _ in range(1 if ch.coin(0.7) else 2):
                if via_loader:
                    # (now and then a package-relative name: what the
                    # loader finds out about one name is that name's)
                    ops.append(["load_render", 0, PKG_SPEC if t and
                                ch.coin(0.4) else name, t + 1])
                elif name in FILE_MACROS and ch.coin(0.4):
                    ops.append(["names", 0] if ch.coin(0.4) else
                               ["use", 0, ch.pick(FILE_MACROS[name]), t + 1])
                else:
                    ops.append(["render", 0, t + 1])
            tasks.append(ops)
        d = ch.pick([2, 3, 3, 4, 5])
        cached = shared[0]["kind"] == "cachedfile"
        if cached and ch.coin(0.8):
            # two instances of one file that share the module cache (the
            # lock of a template does not serialise *them*): the threads
            # are spread over the two
            shared.append(dict(shared[0]))
            for ti_, ops_ in enumerate(tasks):
                for op_ in ops_:
                    op_[1] = ti_ % 2
        if via_loader:
            shared[0]["obs_name"] = name
        return {"shared": shared, "tasks": tasks, "coarse": False,
                "focus": True, "observer": ch.coin(0.8),
                "obs_mod": ch.pick([[1, 0], [1, 0], [2, 0], [2, 1], [3, 1]]),
                "obs_start": ch.choose(100000) / 100000.0
                if ch.coin(0.3) else None,
                "sched": {"kind": "pctacc",
                          "prios": ch.shuffle(list(range(1, ntasks + 1))),
                          # (task, position, at a file-system call?)
                          "fracs": [[ch.choose(ntasks),
                                     ch.choose(100000) / 100000.0,
                                     # (blocking I/O is where a thread
                                     # is most likely to lose the processor)
                                     ch.coin(0.6 if cached else 0.4)]
                                    for _ in range(d)]}}

    def gen_reloadrace(self, ch: Choices, tier: str) -> dict:
        """A shared auto-reloading file template that has been rendered
        before; its file is replaced, then three threads use it at the same
        time.  Alone, each of them would get the new version."""
        name = ch.pick(sorted(FILES_V2) + ["self.pt"])
        via_loader = ch.coin(0.25)
        shared = [{"kind": "loader", "auto": True, "obs_name": name}] \
            if via_loader else \
            [{"kind": ch.pick(["file", "file", "cachedfile"]),
              "name": name, "auto": True}]
        target = name
        if name in ("page.pt", "main.pt") and ch.coin(0.3):
            target = "lib.pt"
        tasks = []
        for t in range(3 if ch.coin(0.7) else 2):
            ops = []
            for _ in range(1 if ch.coin(0.7) else 2):
                if via_loader:
                    ops.append(["load_render", 0, name, t + 1])
                elif name in FILE_MACROS and ch.coin(0.5):
                    ops.append(["names", 0] if ch.coin(0.5) else
                               ["use", 0, ch.pick(FILE_MACROS[name]), t + 1])
                else:
                    ops.append(["render", 0, t + 1])
            tasks.append(ops)
        d = ch.pick([1, 2, 2, 3, 4])
        cached = shared[0]["kind"] == "cachedfile"
        return {"shared": shared, "tasks": tasks, "coarse": False,
                "focus": True, "observer": ch.coin(0.8),
                "obs_mod": ch.pick([[1, 0], [1, 0], [2, 0], [2, 1], [3, 1]]),
                "obs_start": ch.choose(100000) / 100000.0
                if ch.coin(0.75) else None,
                # (sometimes the deployer strikes again while the threads
                # are at it: just before the n-th stat call of the phase)
                "reload": dict({"target": target, "name": name,
                                "dt": ch.pick([10, 10, -10])},
                               **({"during": 1 + ch.choose(5)}
                                  if ch.coin(0.5) else {})),
                "sched": {"kind": "pctacc",
                          "prios": ch.shuffle(list(range(1, len(tasks) + 1))),
                          "fracs": [[ch.choose(len(tasks)),
                                     ch.choose(100000) / 100000.0,
                                     ch.coin(0.5 if cached else 0.25)]
                                    for _ in range(d)]}}

    def gen_xproc(self, ch: Choices, tier: str) -> dict:
        pool = [["string", n] for n in sorted(STRINGS)] + \
            [["file", n] for n in sorted(FILES)]
        temps = ch.sample(pool, 2 + ch.choose(5))
        seq = [[i, 1 + ch.choose(3)] for i in range(len(temps))]
        for _ in range(ch.choose(4)):
            seq.append([ch.choose(len(temps)), 1 + ch.choose(3)])
        seq = ch.shuffle(seq)
        # make sure some (template, args) pair repeats: A, B, A
        seq.append(list(seq[0]))
        nh = 2 if tier != "thorough" else 5
        return {"xproc": True, "templates": temps, "seq": seq,
                "hashseeds": [1 + ch.choose(4000) for _ in range(nh)],
                "noise": ch.choose(1 << 20)}

    def plain_setup(self) -> None:
        """Set-up without any simulator seam (used by the child)."""
        from chameleon.zpt import template as zt
        self.zt = zt

    def run_sequence(self, d: str, temps: list, seq: list, reuse: bool) -> list:
        """Render ``seq`` = [(template index, args index)...]; with
        ``reuse`` on one instance per template, else on a fresh instance
        per call."""
        zt = self.zt
        for n, body in FILES.items():
            p = os.path.join(d, n)
            if not os.path.exists(p):
                os.makedirs(os.path.dirname(p), exist_ok=True)
                with open(p, "w") as f:
                    f.write(body)

        def make(i):
            kind, name = temps[i]
            if kind == "string":
                return zt.PageTemplate(STRINGS[name],
                                       **STRING_OPTIONS.get(name, {}))
            return zt.PageTemplateFile(os.path.join(d, name))
        inst = {}
        out = []
        for ti, ak in seq:
            if reuse:
                t = inst.get(ti)
                if t is None:
                    t = inst[ti] = make(ti)
            else:
                t = make(ti)
            a = self.make_args(ak, [None])
            try:
                out.append(["ok", t.render(**a)])
            except Exception as e:      # noqa: BLE001
                out.append(["exc", type(e).__name__, norm_msg(str(e))[:300]])
        return out

    def run_xproc(self, case: dict) -> dict:
        log = EventLog()
        d = os.path.join(fs_scratch(), "verif-%07d-xp" % os.getpid())
        os.makedirs(d, exist_ok=True)
        violations = []
        try:
            reused = self.run_sequence(d, case["templates"], case["seq"], True)
            fresh = self.run_sequence(d, case["templates"], case["seq"], False)
        finally:
            import shutil
            shutil.rmtree(d, ignore_errors=True)
        for i, (a, b) in enumerate(zip(reused, fresh)):
            log.add("seq", i, a[0], a == b)
            if a != b:
                violations.append({
                    "kind": "history-dependent", "sig": "history-dependent",
                    "detail": f"call {i} {case['seq'][i]} on a reused "
                              f"instance gave {str(a)[:300]}, a fresh "
                              f"instance gives {str(b)[:300]}"})
        seen_pairs = {}
        for i, (k, r) in enumerate(zip(case["seq"], reused)):
            kk = tuple(k)
            if kk in seen_pairs and seen_pairs[kk] != r:
                violations.append({
                    "kind": "repeat-differs", "sig": "repeat-differs",
                    "detail": f"equal arguments {k} rendered differently the "
                              f"second time: {str(r)[:300]} vs "
                              f"{str(seen_pairs[kk])[:300]}"})
            seen_pairs.setdefault(kk, r)
        nchild = 0
        first_child = None
        # the last child renders the calls in reverse order: a call's
        # output may not depend on what the process rendered before it
        plan = [(hs, False) for hs in case["hashseeds"]] + \
            [(case["hashseeds"][0], True)]
        for hs, rev in plan:
            env = dict(os.environ)
            env["PYTHONHASHSEED"] = str(hs)
            seq = list(reversed(case["seq"])) if rev else case["seq"]
            payload = json.dumps({"templates": case["templates"],
                                  "seq": seq, "noise": case["noise"],
                                  "reuse": True})
            p = subprocess.run([sys.executable, "-m", "sim.xproc", payload],
                               cwd=VERIF_ROOT, env=env, capture_output=True,
                               text=True, timeout=600)
            line = [x for x in p.stdout.splitlines() if x.startswith("XPROC ")]
            if p.returncode != 0 or not line:
                return {"harness": "xproc child failed: " + p.stderr[-800:],
                        "violations": [], "digest": log.digest(), "events": 0}
            nchild += 1
            other = json.loads(line[0][6:])["out"]
            if rev:
                other = list(reversed(other))
                same = other == first_child
                log.add("xproc-rev", same)
                if not same:
                    j = next(i for i, (a, b) in enumerate(
                        zip(other, first_child)) if a != b)
                    violations.append({
                        "kind": "order-dependent", "sig": "order-dependent",
                        "detail": f"call {j} {case['seq'][j]} of template "
                                  f"{case['templates'][case['seq'][j][0]]} "
                                  f"gives {str(first_child[j])[:300]} when "
                                  f"a fresh process renders the sequence "
                                  f"forwards but {str(other[j])[:300]} when "
                                  f"it renders it backwards"})
                continue
            if first_child is None:
                first_child = other
            same = other == reused
            log.add("xproc", same)
            if not same:
                j = next(i for i, (a, b) in enumerate(zip(other, reused))
                         if a != b)
                violations.append({
                    "kind": "process-dependent", "sig": "process-dependent",
                    "detail": f"call {j} {case['seq'][j]} of template "
                              f"{case['templates'][case['seq'][j][0]]} gives "
                              f"{str(reused[j])[:300]} in this interpreter "
                              f"(PYTHONHASHSEED=0) but {str(other[j])[:300]} "
                              f"under PYTHONHASHSEED={hs}"})
        violations.sort(key=lambda v: v["sig"] != "order-dependent")
        return {"violations": violations, "digest": log.digest(),
                "events": len(case["seq"]) * (1 + nchild),
                "stats": {"xproc_children": nchild,
                          "sequence_calls": len(case["seq"])},
                "cover": ["xproc"] + ["xtemplate:" + t[1]
                                      for t in case["templates"]],
                "nontrivial": ["xproc:" + short_hash(
                    [case["templates"], case["seq"]])[:10]],
                "summary": {"calls": len(case["seq"]),
                            "children": nchild}}

    def _gen_sched(self, ch: Choices, ntasks: int) -> dict:
        k = ch.choose(10, "schedkind")
        if k == 0:
            return {"kind": "random", "seed": ch.choose(1 << 30),
                    "p": ch.pick([0.01, 0.05, 0.2])}
        if k < 7:
            # change points at a task's n-th shared-state access line /
            # file-system call / in-template probe
            d = ch.pick([1, 2, 2, 3, 3, 4])
            return {"kind": "pctacc",
                    "prios": ch.shuffle(list(range(1, ntasks + 1))),
                    "fracs": [[ch.choose(ntasks),
                               ch.choose(100000) / 100000.0, ch.coin(0.35)]
                              for _ in range(d)]}
        d = 1 + ch.choose(3)
        return {"kind": "pct", "prios": ch.shuffle(list(range(1, ntasks + 1))),
                # fractions of the dry-run event count; half of them are
                # snapped to events inside shared-state functions
                "fracs": [[ch.choose(100000) / 100000.0, ch.coin(0.5)]
                          for _ in range(d)]}

    # -- objects -----------------------------------------------------------------
    def make_args(self, k: int, sched_box) -> dict:
        def y():
            s = sched_box[0]
            if s is not None and s.active:
                s.yield_point("probe:y", interesting=True, access=True)
            return ""
        def tr(msgid, **kw):
            # (every caller has a translation function of its own)
            return "%d:%s" % (k, tr_stub(msgid, **kw))
        return {"name": "n%d" % k, "items": [k, k + 1, k + 2],
                "helper": "H%d" % k, "row": Row(k),
                "raw": ("caf\u00e9-%d" % k).encode("utf-8"),
                "y": y, "translate": tr,
                "markup": Markup("<em>m%d</em>" % k),
                "opts": {"a": [k], "b": {"c": k}}}

    def build_graph(self, world: World, sub: str, shared: list) -> list:
        """Fresh object graph over directory ``sub`` of the sandbox."""
        zt = self.zt
        d = world.path(sub)
        if not os.path.isdir(d):
            os.makedirs(os.path.join(d, "cache"))
            for n, body in FILES.items():
                os.makedirs(os.path.dirname(os.path.join(d, n)),
                            exist_ok=True)
                with real.open(os.path.join(d, n), "w") as f:
                    f.write(body)
        objs = []
        # caller-owned search path lists: rendering/loading must leave
        # them as they are
        self._owned = []

        def owned():
            lst = [d]
            self._owned.append((lst, list(lst)))
            return lst
        for s in shared:
            k = s["kind"]
            if k == "string":
                objs.append(zt.PageTemplate(
                    STRINGS[s["name"]], **STRING_OPTIONS.get(s["name"], {})))
            elif k == "file":
                objs.append(zt.PageTemplateFile(
                    os.path.join(d, s["name"]), search_path=owned(),
                    **({"auto_reload": True} if s.get("auto") else {})))
            elif k == "loader":
                objs.append(self.TemplateLoader(
                    owned(), **({"auto_reload": True} if s.get("auto")
                                else {})))
            elif k == "cached":
                objs.append(zt.PageTemplate(
                    STRINGS[s["name"]], **STRING_OPTIONS.get(s["name"], {}),
                    loader=self.ModuleLoader(os.path.join(d, "cache"))))
            elif k == "cachedfile":
                objs.append(zt.PageTemplateFile(
                    os.path.join(d, s["name"]),
                    loader=self.ModuleLoader(os.path.join(d, "cache")),
                    **({"auto_reload": True} if s.get("auto") else {})))
        return objs

    def prior_history(self, world: World, sub: str, objs: list,
                      reload: dict | None) -> None:
        """What happened to the shared objects before the operations under
        test: with ``reload``, one render each, then the deployer replaces
        a file (new content, new modification time)."""
        if not reload:
            return
        for o in objs:
            if hasattr(o, "load"):
                self.do_op([o], ["load_render", 0, reload["name"], 77],
                           [None])
            else:
                self.do_op([o], ["render", 0, 77], [None])
        self.deploy(world, sub, reload, FILES_V2)
        if reload.get("final") == 3:
            self.deploy(world, sub, reload, FILES_V3)

    def deploy(self, world: World, sub: str, reload: dict,
               bodies: dict) -> None:
        with world.harness():
            path = os.path.join(world.path(sub), reload["target"])
            st = os.stat(path)
            with real.open(path, "w") as f:
                f.write(bodies[reload["target"]])
            t = st.st_mtime_ns + reload["dt"] * 1_000_000_000
            real.utime(path, ns=(t, t))

    def do_op(self, objs: list, op: list, sched_box) -> list:
        zt = self.zt
        kind = op[0]
        try:
            if kind == "render":
                a = self.make_args(op[2], sched_box)
                snap = copy.deepcopy({k: a[k] for k in ("items", "opts")})
                r = ["ok", objs[op[1]].render(**a)]
                if {k: a[k] for k in ("items", "opts")} != snap:
                    r = ["args-mutated", canonical(snap)]
                return r
            if kind == "names":
                return ["ok", sorted(objs[op[1]].macros.names)]
            if kind == "use":
                a = self.make_args(op[3], sched_box)
                c = zt.PageTemplate(USE_CALLER % op[2])
                return ["ok", c.render(t=objs[op[1]], **a)]
            if kind == "load_render":
                a = self.make_args(op[3], sched_box)
                t = objs[op[1]].load(op[2])
                self._loaded.append((op[1], op[2], t))
                return ["ok", t.render(**a)]
            raise AssertionError(kind)
        except Exception as e:      # noqa: BLE001
            # (an interrupt still pending for this thread is not meant for
            # the harness formatting the error)
            trace.arm_interrupt(None)
            if isinstance(e, WouldBlock):
                # (the atomic observer met a lock held by a parked task:
                # not an outcome, the observation is abandoned)
                raise WouldBlock(str(e.args[0]) if e.args else "") from None
            return ["exc", type(e).__name__, exc_text(e)]

    def expected(self, world: World, shared: list, op: list,
                 reload: dict | None = None) -> list:
        if reload:
            reload = {k: v for k, v in reload.items() if k != "during"}
        key = canonical([shared[op[1]], op, reload])
        r = self._exp_cache.get(key)
        if r is None:
            if len(self._exp_cache) > 5000:
                self._exp_cache.clear()
            n = getattr(world, "_alone", 0)
            world._alone = n + 1
            with world.harness():
                objs = self.build_graph(world, "alone%d" % n, shared)
                self.prior_history(world, "alone%d" % n, objs, reload)
                r = self.do_op(objs, op, [None])
            self._exp_cache[key] = r
        return r

    # -- execution ---------------------------------------------------------------
    def run(self, case: dict) -> dict:
        self.quiesce()
        if case.get("xproc"):
            return self.run_xproc(case)
        log = EventLog()
        world = World(log, plan={}, tag="c14")
        world.activate()
        try:
            return self._run(case, world, log)
        finally:
            trace.detach()
            world.close()

    def _run(self, case: dict, world: World, log: EventLog) -> dict:
        shared = case["shared"]
        violations: list[dict] = []
        stats = {"fired": {}, "skipped": {}, "ops": 0, "switches": 0,
                 "interesting_switches": 0, "line_events": 0}
        all_ops = [op for t in case["tasks"] for op in t]
        reload = case.get("reload")
        exp = {canonical(op): self.expected(world, shared, op, reload)
               for op in all_ops}
        # ... and after a second replacement during the phase
        during = bool(reload and reload.get("during"))
        exp3 = {canonical(op): self.expected(world, shared, op,
                                             dict(reload, final=3))
                for op in all_ops} if during else {}
        wrote_at: list = []          # scheduler step of that replacement

        intr = case.get("interrupt")
        intr_fired: list = []

        def phase(sub: str, policy_spec: dict, record_labels=None):
            proc = world.new_proc("P" + sub)
            with world.harness():
                objs = self.build_graph(world, sub, shared)
            if reload:
                with world.as_proc(proc):
                    self.prior_history(world, sub, objs, reload)
            sched = Scheduler(make_policy(policy_spec), log,
                              max_steps=400_000)
            sched.on_switch = world.on_switch
            world.sched = sched
            box = [sched]
            results = []
            labels = record_labels
            if labels is not None:
                orig = sched.yield_point

                def yp(label, interesting=False, **kw):
                    labels.append(interesting)
                    if kw.get("access") and label.startswith("line:"):
                        acc_labels[label] = acc_labels.get(label, 0) + 1
                    return orig(label, interesting, **kw)
                sched.yield_point = yp      # type: ignore[method-assign]
            # (after a reload every object has a compiled past already)
            done_ops = [1 if reload else 0] * len(shared)
            for ti, ops in enumerate(case["tasks"]):
                out: list = []
                results.append(out)

                def body(ops=ops, out=out, ti=ti):
                    for oi, op in enumerate(ops):
                        began = sched.step
                        it = None
                        if intr and sub == "run" and intr["task"] == ti \
                                and intr["opi"] == oi:
                            import builtins
                            it = trace.Interrupt(
                                intr["nth"], getattr(builtins, intr["exc"]),
                                distinct=intr["mode"] == "distinct",
                                access=intr["mode"] == "access",
                                creturn=intr["mode"] == "creturn",
                                acquire_only=intr["mode"] == "acquire")
                            trace.arm_interrupt(it)
                        try:
                            r_ = self.do_op(objs, op, box)
                        except (KeyboardInterrupt, SystemExit) as e_:
                            r_ = ["exc", type(e_).__name__, ""]
                        finally:
                            if it is not None:
                                trace.arm_interrupt(None)
                        if it is not None and it.fired is not None:
                            intr_fired.append((ti, oi, it.fired, r_))
                        out.append([op, r_, began, sched.step])
                        done_ops[op[1]] += 1
                sched.spawn("t%d" % ti, body, proc)
            if case.get("observer") and sub == "run":
                # An extra thread that, at every shared-state access line
                # once somebody has completed an operation on the object,
                # gets the processor and performs one whole render without
                # being pre-empted - a legal schedule at every such instant.
                budget = [80]
                obs_ops = []
                for si, sh in enumerate(shared):
                    if sh["kind"] == "loader":
                        obs_ops.append(["load_render", si,
                                        sh.get("obs_name", "self.pt"), 90 + si])
                    else:
                        obs_ops.append(["render", si, 90 + si])
                turn = [0]

                # (an observer that runs at *every* such instant repairs
                # what it observes - it would reload a changed file itself
                # one line before the window it is meant to look into - so
                # it takes only every m-th instant, offset r)
                om = case.get("obs_mod") or [1, 0]
                seen_acc = [0]
                # ... and may stay away until a given source line comes up
                # for the first time (lines, not instants, drawn uniformly:
                # a line that runs once per reload is as likely as one that
                # runs on every render)
                wait_for = [obs_start_label]

                def observer(me, label):
                    if not sched.last_access or budget[0] <= 0:
                        return
                    if wait_for[0] is not None:
                        if label != wait_for[0]:
                            return
                        wait_for[0] = None
                        seen_acc[0] = om[1] - 1
                    seen_acc[0] += 1
                    if seen_acc[0] % om[0] != om[1]:
                        return
                    si = turn[0] % len(shared)
                    turn[0] += 1
                    if not done_ops[si]:
                        return
                    budget[0] -= 1
                    op = obs_ops[si]
                    w0 = len(wrote_at)
                    sched.atomic = True
                    # (the observer borrows the thread of the task that is
                    # at the yield point: an interrupt pending for that
                    # task is not meant for it)
                    pending = trace._state["intr"]
                    trace.arm_interrupt(None)
                    try:
                        r = self.do_op(objs, op, [None])
                    except WouldBlock:
                        r = None
                    finally:
                        sched.atomic = False
                        trace.arm_interrupt(pending)
                    stats["observer_ops"] = stats.get("observer_ops", 0) + 1
                    # (once the second replacement has happened, a thread
                    # that starts now gets the third version)
                    oe = obs_exp3[si] if wrote_at else obs_exp[si]
                    if len(wrote_at) > w0 and r is not None and (
                            r == obs_exp[si] or
                            spans_both(r, obs_exp[si], oe)):
                        oe = r      # (it happened during this very render)
                    if r is not None and r != oe:
                        observer_bad.append((sched.step, label, op, r, oe))
                sched.on_event = observer
            if during and sub == "run":
                def _strike():
                    self.deploy(world, sub, reload, FILES_V3)
                    wrote_at.append(sched.step)
                world.armed[proc.name] = {
                    "kind": "midwrite", "nth": reload["during"],
                    "kinds": {"getmtime"}, "path": reload["target"],
                    "action": _strike}
            trace.attach(sched, coarse=case.get("coarse", False),
                         focus=case.get("focus", False))
            l0 = trace._state["lines"]
            sched.run(timeout=90)
            trace.detach()
            world.sched = None
            world.armed.clear()
            stats["line_events"] += trace._state["lines"] - l0
            return sched, objs, results

        # dry run (boring schedule) to measure the number of events and to
        # find the events inside shared-state functions
        dkey = short_hash([shared, case["tasks"], case.get("coarse"),
                           case.get("focus"), reload])
        labels: list | None = None
        acc_labels: dict = {}
        obs_start_label = None
        pol = dict(case["sched"])
        if pol.get("kind") in ("pct", "pctacc") and "fracs" in pol:
            d = self._dry_cache.get(dkey)
            if d is None:
                labels = []
                dsched, _, dres = phase("dry", {"kind": "fifo"}, labels)
                if dsched.failure is not None:
                    return {"harness": "dry run failed: %r" % dsched.failure,
                            "violations": [], "digest": log.digest(),
                            "events": log.count}
                for out in dres:
                    for op, r_, _b, _e in out:
                        if r_ != exp[canonical(op)] and r_[0] == "exc" and \
                                r_[1] in ("TypeError", "AttributeError") and \
                                "yield_point" in str(r_):
                            return {"harness": "dry run broke: %s" % (r_,),
                                    "violations": [], "digest": log.digest(),
                                    "events": log.count}
                hot = [i + 1 for i, x in enumerate(labels) if x]
                d = {"n": len(labels), "hot": hot,
                     # rare lines first: each line weighs 1/frequency
                     "acc_labels": sorted(acc_labels.items()),
                     "acc": max([t.access_events for t in dsched.tasks]
                                or [0]),
                     "fs": max([t.fs_events for t in dsched.tasks] or [0])}
                if len(self._dry_cache) > 2000:
                    self._dry_cache.clear()
                self._dry_cache[dkey] = d
            else:
                # keep the event log independent of cache hits: the dry
                # run's own events are never logged
                pass
            if case.get("obs_start") is not None and d["acc_labels"]:
                # a line drawn with weight 1/frequency: one that runs once
                # per reload counts as much as all executions of one that
                # runs in every render
                tot = sum(1.0 / n for _, n in d["acc_labels"])
                x = case["obs_start"] * tot
                for lab, n in d["acc_labels"]:
                    x -= 1.0 / n
                    obs_start_label = lab
                    if x < 0:
                        break
            if pol["kind"] == "pctacc":
                pts = []
                for fr in pol["fracs"]:
                    t, frac = fr[0], fr[1]
                    if len(fr) > 2 and fr[2] and d.get("fs"):
                        pts.append([t, 1 + int(frac * d["fs"]), "fs"])
                    else:
                        pts.append([t, 1 + int(frac * max(d["acc"], 1))])
                pol = {"kind": "pctacc", "prios": pol["prios"],
                       "points": pts}
            else:
                changes = []
                for frac, snap in pol["fracs"]:
                    if snap and d["hot"]:
                        changes.append(d["hot"][int(frac * len(d["hot"]))])
                    else:
                        changes.append(1 + int(frac * max(d["n"], 1)))
                pol = {"kind": "pct", "prios": pol["prios"],
                       "changes": sorted(changes)}
        # the dry phase must not leave a trace in the log/digest
        log.__init__()

        def during_sig(sig: str, got, v2, v3) -> str:
            """Known finding F14 (reload is not synchronised): with a file
            replaced while several threads use its template, a thread that
            read the older content can finish compiling after one that
            read the newer content.  Exactly two failure modes are filed
            under it - the previous version served as current, and a
            result stitched from the two versions; anything else in such
            a run (an exception, the first version, a deadlock, foreign
            text) is reported as usual."""
            if not wrote_at or not isinstance(got, list):
                return sig
            if not _CC["overlap"]:
                # no two threads were ever reloading the instance at the
                # same time: whatever went wrong is not that finding
                return sig
            # (A narrower rule was tried - file it only when a compilation
            # of the older content ended after one of the newest began -
            # and withdrawn: on the unchanged tree the late `_cooked = True`
            # of the older compilation can also land between another
            # thread's invalidation and its check, and then the newest
            # content is never compiled at all; soak, VERIF_SEED=607.)
            if got == v2 and got != v3:
                return "stale-version-after-replace-during-use"
            if got[0] == "ok" and got != v3 and \
                    version_blind(got) == version_blind(v3):
                return "mixed-versions-after-replace-during-use"
            if got[0] == "ok" and isinstance(got[1], list) and \
                    v2[0] == "ok" and v3[0] == "ok" and \
                    set(got[1]) <= set(v2[1]) | set(v3[1]):
                # (a macro list stitched from the two versions)
                return "mixed-versions-after-replace-during-use"
            if got[0] == "ok" and isinstance(got[1], str) and \
                    v2[0] == "ok" and v3[0] == "ok" and \
                    set(_pieces(got[1])) <= set(_pieces(v2[1])) | \
                    set(_pieces(v3[1])):
                # (the versions differ in their macro sets: every piece of
                # the output - tag or text run - comes from one of them)
                return "mixed-versions-after-replace-during-use"
            return sig

        observer_bad: list = []
        obs_exp = []
        if case.get("observer"):
            for si, sh in enumerate(shared):
                if sh["kind"] == "loader":
                    obs_exp.append(self.expected(world, shared, [
                        "load_render", si, sh.get("obs_name", "self.pt"),
                        90 + si], reload))
                else:
                    obs_exp.append(self.expected(world, shared,
                                                 ["render", si, 90 + si],
                                                 reload))
        obs_exp3 = []
        if case.get("observer") and during:
            for si, sh in enumerate(shared):
                obs_exp3.append(self.expected(
                    world, shared,
                    ["load_render", si, sh["obs_name"], 90 + si]
                    if sh["kind"] == "loader" else ["render", si, 90 + si],
                    dict(reload, final=3)))
        _CC["active"] = {}
        _CC["overlap"] = False
        _CK["cooks"] = []
        _CK["n"] = 0
        self._loaded = []
        sched, objs, results = phase("run", pol)
        # the same name through the same loader is the same instance - also
        # when the first loads of it overlap, and also afterwards
        got_: dict = {}
        for si_, nm_, t_ in self._loaded:
            got_.setdefault((si_, nm_), []).append(t_)
        for (si_, nm_), ts_ in sorted(got_.items(), key=lambda kv: kv[0]):
            try:
                now_ = objs[si_].load(nm_)
            except Exception:       # noqa: BLE001 - reported elsewhere
                continue
            if any(t_ is not now_ for t_ in ts_):
                violations.append({
                    "kind": "loader-identity", "sig": "loader-identity",
                    "detail": f"{len(ts_)} concurrent / repeated loads of "
                              f"{nm_!r} through one loader returned "
                              f"{len({id(t_) for t_ in ts_} | {id(now_)})} "
                              f"different instances"})
                break
        self._loaded = []
        owned_lists = list(self._owned)
        for step, label, op, r, oe in observer_bad[:1]:
            violations.append({
                "kind": "observer-differs",
                "sig": during_sig("observer-differs", r, obs_exp[op[1]], oe),
                "detail": f"a thread that is given the processor at event "
                          f"{step} ({label}) and performs {op} without being "
                          f"pre-empted gets {str(r)[:300]}; run alone it "
                          f"gets {str(oe)[:300]}"})
            log.add("observer-bad", step)
        if sched.failure is not None:
            fk = type(sched.failure).__name__
            if fk == "Deadlock":
                violations.append({"kind": "deadlock", "sig": "deadlock",
                                   "detail": str(sched.failure)})
            else:
                return {"harness": f"{fk}: {sched.failure}",
                        "violations": [], "digest": log.digest(),
                        "events": log.count}
        else:
            # every operation has returned: a lock of the library that is
            # still held now is held for good - the next thread to need it
            # would block (the concurrent phase just happened not to)
            for t in sched.tasks:
                for lk in getattr(t.proc, "locks", {}).values():
                    if lk.owner is not None and lk.count > 0:
                        violations.append({
                            "kind": "deadlock", "sig": "deadlock",
                            "detail": f"lock {lk.name} is still held by "
                                      f"{getattr(lk.owner, 'name', lk.owner)}"
                                      f" after all operations have returned"})
                        lk.owner, lk.count = None, 0
        for t in sched.tasks:
            if t.exc is not None:
                return {"harness": "task died: %r" % (t.exc,),
                        "violations": [], "digest": log.digest(),
                        "events": log.count}
        if wrote_at:
            stats["fired"]["midwrite"] = 1
        if intr:
            k_ = "fired" if intr_fired else "skipped"
            stats[k_]["interrupt"] = 1
        for ti, out in enumerate(results):
            for oi, (op, r, began, ended) in enumerate(out):
                stats["ops"] += 1
                want = exp[canonical(op)]
                if intr_fired and intr_fired[0][:2] == (ti, oi) and \
                        r[0] == "exc" and r[1] == intr["exc"]:
                    # the operation that was sent the exception may fail
                    # with it (and with nothing else)
                    log.add("res", ti, canonical(op), "interrupted",
                            intr_fired[0][2][1])
                    continue
                if wrote_at:
                    # an operation that began after the second replacement
                    # must serve the third version; one that was under way
                    # may serve either - or, since a macro looked up in the
                    # middle of a render checks the file again, parts of
                    # both (nobody promises a snapshot to a render that
                    # spans the replacement)
                    w3 = exp3[canonical(op)]
                    if began >= wrote_at[0] or r == w3:
                        want = w3
                    elif ended >= wrote_at[0] and \
                            spans_both(r, exp[canonical(op)], w3):
                        want = r
                # (verdicts, not texts: the log must not depend on the
                # interpreter's hash seed - that axis is sub-check (b))
                log.add("res", ti, canonical(op), r[0], r == want)
                if r[0] == "args-mutated":
                    violations.append({
                        "kind": "args-mutated", "sig": "args-mutated",
                        "detail": f"task {ti} {op}: caller-owned arguments "
                                  f"changed; before: {r[1][:200]}"})
                elif r != want:
                    violations.append({
                        "kind": "concurrent-differs",
                        "sig": during_sig("concurrent-differs:" + op[0], r,
                                          exp[canonical(op)], want),
                        "detail": f"task {ti} {op} returned "
                                  f"{str(r)[:400]} but run alone it returns "
                                  f"{str(want)[:400]}"})
        # residue: once more, sequentially, on the shared objects
        proc = world.new_proc("Pafter")
        with world.as_proc(proc):
            for op in all_ops:
                r = self.do_op(objs, op, [None])
                want = (exp3 if wrote_at else exp)[canonical(op)]
                if r != want:
                    violations.append({
                        "kind": "residue",
                        "sig": during_sig("residue:" + op[0], r,
                                          exp[canonical(op)], want),
                        "detail": f"after the concurrent phase {op} returns "
                                  f"{str(r)[:400]}; expected {str(want)[:400]}"})
        for lst, snap in owned_lists:
            if lst != snap:
                violations.append({
                    "kind": "args-mutated", "sig": "args-mutated:search_path",
                    "detail": f"the search_path list handed to a loader / "
                              f"file template was modified: "
                              f"{[world.rel(x) for x in lst]} (was "
                              f"{[world.rel(x) for x in snap]})"})
        stats["switches"] = sched.switches
        stats["interesting_switches"] = sched.interesting_switches
        nontrivial = []
        if sched.interesting_switches:
            nontrivial.append("%s:%s" % (short_hash([shared, case["tasks"]])[:8],
                                         sched.switch_sig.hexdigest()[:12]))
        seen = set()
        uniq = []
        for v in violations:
            if v["sig"] not in seen:
                seen.add(v["sig"])
                uniq.append(v)
        cover = {"shared:" + s["kind"] for s in shared} | \
            {"op:" + op[0] for op in all_ops}
        if case.get("coarse"):
            cover.add("compile-side-yields")
        if reload:
            cover.add("reload-race")
        for _ti, _oi, where, _r in intr_fired:
            cover.add("interrupt:" + where[1])
        return {"violations": uniq, "digest": log.digest(),
                "events": sched.step, "stats": stats, "cover": sorted(cover),
                "nontrivial": nontrivial,
                "summary": {"events": sched.step, "switches": sched.switches,
                            "switches_in_shared_state_code":
                                sched.interesting_switches,
                            "policy": pol}}

    # -- minimisation ----------------------------------------------------------
    def shrink_candidates(self, case: dict):
        c = case
        if c.get("interrupt"):
            d = copy.deepcopy(c)
            del d["interrupt"]
            yield d
        if c.get("xproc"):
            for i in range(len(c["seq"]) - 1, -1, -1):
                if len(c["seq"]) > 1:
                    d = copy.deepcopy(c)
                    del d["seq"][i]
                    yield d
            for i in range(len(c["hashseeds"]) - 1, -1, -1):
                if len(c["hashseeds"]) > 1:
                    d = copy.deepcopy(c)
                    del d["hashseeds"][i]
                    yield d
            return
        if c.get("coarse"):
            d = copy.deepcopy(c)
            d["coarse"] = False
            yield d
        if c.get("observer"):
            d = copy.deepcopy(c)
            d["observer"] = False
            yield d
        for ti in range(len(c["tasks"]) - 1, -1, -1):
            if len(c["tasks"]) > 2:
                d = copy.deepcopy(c)
                del d["tasks"][ti]
                if d["sched"].get("prios"):
                    d["sched"]["prios"] = list(range(1, len(d["tasks"]) + 1))
                yield d
            for oi in range(len(c["tasks"][ti]) - 1, -1, -1):
                if len(c["tasks"][ti]) > 1:
                    d = copy.deepcopy(c)
                    del d["tasks"][ti][oi]
                    yield d
        s = c["sched"]
        if s.get("kind") in ("pct", "pctacc"):
            key = "fracs" if "fracs" in s else (
                "changes" if "changes" in s else "points")
            for j in range(len(s[key])):
                d = copy.deepcopy(c)
                del d["sched"][key][j]
                yield d
        # drop unused shared objects
        used = {op[1] for t in c["tasks"] for op in t}
        for si in range(len(c["shared"]) - 1, -1, -1):
            if si not in used and len(c["shared"]) > 1:
                d = copy.deepcopy(c)
                del d["shared"][si]
                for t in d["tasks"]:
                    for op in t:
                        if op[1] > si:
                            op[1] -= 1
                yield d

    def sample(self, case: dict, res: dict) -> dict:
        return {"case": case, "outcome": res.get("summary"),
                "violations": [v["sig"] for v in res.get("violations", ())]}

    def evidence(self, agg: dict, tier: str) -> dict:
        cover = agg["cover"]
        st = agg["stats"]
        return {
            "rule": (
                "per run: 1-2 shared objects (string template, lazily "
                "compiled file template, template loader over a directory "
                "whose templates load: each other and use each other's "
                "macros, templates backed by the on-disk module loader), "
                "2-3 threads with 1-3 operations each (render with distinct "
                "arguments, macros.names, use a macro from another "
                "template, loader.load + render); PCT with 1-3 change "
                "points (half of them snapped to events inside shared-state "
                "functions) or uniform random switching; 25% of runs also "
                "yield at every function entry of the compile-side "
                "modules; 15% of schedule runs are reload races (an "
                "auto-reloading file template rendered once, its file or "
                "library replaced, then used by 2-3 threads at once); in a "
                "quarter of the schedules one thread is sent "
                "KeyboardInterrupt / SystemExit at its n-th line / distinct "
                "line / shared-state access line inside one operation (that "
                "operation may fail with it, nothing else may change, nobody "
                "may deadlock); instances returned by concurrent loads of "
                "one name must be one object. Some "
                "pool templates fail for some arguments: the error text "
                "(class, args, expression, file, position, excerpt) must "
                "equal the lone run's. A run is non-trivial if at least one context "
                "switch happened inside a shared-state function (cook, "
                "cook_check, load, _load, build, Macros.*, render, a lock "
                "operation, a file-system call or a probe inside a "
                "template); distinct by (workload, context-switch "
                "sequence hash)."),
            "distinct": {"shared_kinds": [k for k in cover
                                          if k.startswith("shared:")],
                         "op_kinds": [k for k in cover if k.startswith("op:")]},
            "probes": {"runs_with_compile_side_yields":
                       cover.get("compile-side-yields", 0),
                       "context_switches": st.get("switches", 0),
                       "context_switches_in_shared_state_code":
                           st.get("interesting_switches", 0),
                       "line_events": st.get("line_events", 0)},
            "real_vs_stub": {
                "real": ["all of chameleon, real threads, real files on a "
                         "scratch directory, importlib"],
                "stub": ["who runs next: baton scheduler, pre-emption at "
                         "sys.monitoring LINE events of template.py, "
                         "loader.py, zpt/template.py, zpt/loader.py, tal.py, "
                         "utils.py, i18n.py and of every generated render "
                         "function, at lock operations, file-system calls "
                         "and probe calls inside templates",
                         "every lock that chameleon's own code creates, "
                         "at import or later (scheduler-aware re-entrant "
                         "locks; the import system's locks are real)",
                         "asynchronous exceptions (raised from the LINE "
                         "callback)"]},
            "assumptions": [
                "pre-emption granularity is a source line (not a bytecode)",
                "files change only in the reload-race family: one is "
                "replaced between a first render and the concurrent phase "
                "and, in half of those runs, once more during it (then "
                "operations that began before that instant may serve either "
                "version, later ones must serve the newest)",
                "expected values come from the same operation run alone on "
                "a fresh, separately compiled object graph"],
            "extra": {"ops_executed": st.get("ops", 0)},
        }


CHECK = C14()
