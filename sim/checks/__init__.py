"""One workload + oracle per claimed property."""
