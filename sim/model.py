"""Reference interpreter for the generated TAL subset.

A second, deliberately naive implementation of the *documented* language
for exactly the constructs gen.py produces.  Given the same tree and the
same fault plan as the real engine it predicts the output text, the exact
probe-call history, the on_error_handler calls and either "returns" or
"raises class C with args A while evaluating site s".

Statement order (docs/reference.rst): define, switch, condition, repeat,
case, content | replace, omit-tag, attributes; on-error wraps the whole
element.  The generator never puts switch together with condition / repeat
/ case, nor case together with condition / repeat, on one element, so the
places where the implementation's nesting differs from the documented table
are not exercised.  Within one start tag the evaluation order is the
output order: omit-tag guard, attributes left to right, then the content.
"""
from __future__ import annotations

from .gen import BARE_NAME_EXISTS, RAISING_FORMS
from .env import (EXISTS_CAUGHT, PIPE_CAUGHT, BadBool, BadHtml, BadIter, BadSeq, Handler,
                  Html, Probe, default_marker, tcall_record)


class ModelRaise(Exception):
    """Carries the exception a probe raised up through the model, with
    the expression occurrence that was being evaluated."""


def esc_text(s: str) -> str:
    return s.replace("&", "&amp;").replace("<", "&lt;").replace(">", "&gt;")


def esc_attr(s: str) -> str:
    return esc_text(s).replace('"', "&quot;")


class ErrorInfoModel:
    def __init__(self, exc) -> None:
        self.type = type(exc)
        self.value = exc


class Model:
    def __init__(self, tmpl: dict, plan: list, handler: Handler | None,
                 case_once: bool = True, guard_tags: bool = True,
                 leaky_scope: bool = False,
                 raw_default_attr: bool = False) -> None:
        self.tree = tmpl["tree"]
        # tal:attributes yielding ``default`` for an attribute whose static
        # value contains ${...}: the default value is that interpolation,
        # evaluated then.  raw_default_attr=True is the variant that emits
        # the static text as it stands (what the code at hand does).
        self.raw_default_attr = raw_default_attr
        self.raw_attr_relevant = False
        # marker variables (tal:define="wK 'lit'", read as ${wK | 'unset'}):
        # a local definition ends with its element - also when the element
        # is left by an exception that an outer tal:on-error then handles.
        # leaky_scope=True is the variant that skips the restoration on
        # the exceptional path (what the code at hand does).
        self.leaky_scope = leaky_scope
        self.i18n_domain = None       # what i18n:domain / i18n:context of
        self.i18n_context = None      # the enclosing elements say
        self.mlocals: dict[str, str] = {}
        self.mglobals: dict[str, str] = {}
        self.scope_relevant = False
        self.probe = Probe(tmpl["sites"], plan)
        self.handler = handler
        self.out: list[str] = []
        self.error = None
        self.case_once = case_once
        # on-error on an element with a tal:omit-tag *expression*: does the
        # fallback carry the element's tags when the guard was evaluated
        # and came out false (the element does show its tags then)?  The
        # property says "its start tag ... and its end tag"; True = that.
        self.guard_tags = guard_tags
        self.guard_value: dict[int, bool] = {}   # eid -> last guard value
        self.guard_relevant = False
        self.cur_expr = None          # outermost statement expression
        self.handled = 0
        self.macros: dict[str, dict] = {}
        for tree in (tmpl.get("files") or {"": self.tree}).values():
            self._scan(tree)
        self.use_stack: list[int] = []       # eids of active use-macro sites
        self.frames: list[dict] = []         # slot fills per macro invocation
        self.fail_stack: dict[int, list] = {}  # id(exc) -> use_stack snapshot
        self.fail_info: dict[int, tuple] = {}  # id(exc) -> (site, fn depth)
        self.fail_oid: dict[int, int] = {}     # id(exc) -> occurrence id
        self.last_oid: dict[int, int] = {}     # probe id -> last occurrence
        self.lists: dict[str, int] = {}
        self.tr_stack: list[dict] = []
        self.fn_depth = 0             # nesting of render functions
        self.err_records: list = []   # what fallbacks read from ``error``
        self._keep: list = []         # keeps exceptions alive (ids stay unique)

    def _scan(self, n: dict) -> None:
        if n["t"] != "el":
            return
        if n.get("define_macro"):
            self.macros[n["define_macro"]] = n
        for c in n["children"]:
            self._scan(c)

    # -- expressions -------------------------------------------------------------
    def ev(self, e: dict):
        k = e["k"]
        if k == "P":
            self.last_oid[e["id"]] = e.get("oid")
            try:
                return self.probe(e["id"])
            except BaseException as exc:
                self.fail_stack[id(exc)] = list(self.use_stack)
                self.fail_info[id(exc)] = (e["id"], self.fn_depth)
                self.fail_oid[id(exc)] = e.get("oid")
                raise
        if k == "name":
            # (only generated under exists:)
            if BARE_NAME_EXISTS[e["name"]]:
                return True
            raise NameError(e["name"])
        if k == "load":
            return ("template", e["file"])
        if k == "lit":
            src = e["src"]
            if src in ("nothing", "None"):
                return None
            if src == "default":
                return default_marker()
            # (attribute values are entity-decoded before they are parsed,
            # and ';;' stands for one ';' in define / attributes lists)
            import html
            return eval(html.unescape(src).replace(";;", ";"), {})
        if k == "pipe":
            alts = e["alts"]
            for i, a in enumerate(alts):
                if i == len(alts) - 1:
                    return self.ev(a)
                try:
                    return self.ev(a)
                except PIPE_CAUGHT:
                    continue
        if k == "not":
            return not self.truth(self.ev(e["e"]))
        if k == "exists":
            try:
                self.ev(e["e"])
            except EXISTS_CAUGHT:
                return 0
            return 1
        if k == "pyform" and e["form"] in RAISING_FORMS:
            # (a form that fails before it reaches the probe)
            cls_, args_ = RAISING_FORMS[e["form"]]
            exc = cls_(*args_)
            inner = e["e"]
            self.fail_stack[id(exc)] = list(self.use_stack)
            self.fail_info[id(exc)] = (inner.get("id"), self.fn_depth)
            self.fail_oid[id(exc)] = inner.get("oid")
            raise exc
        if k in ("python", "pyform"):
            # (the python forms only wrap the probe call: lambdas that are
            # called at once, a one-element comprehension, a tuple index)
            return self.ev(e["e"])
        if k == "string":
            return self.string_parts(e["parts"])
        if k == "errinfo":
            exc = self.error.value
            info = self.fail_info.get(id(exc))
            self.err_records.append({
                "type": self.error.type.__name__,
                "args": list(getattr(exc, "args", ())),
                "site": info[0] if info else None,
                "oid": self.fail_oid.get(id(exc)),
                # the failure happened in the same render function as the
                # handler (not inside a macro call or slot content)?
                "same_function": bool(info) and info[1] == self.fn_depth,
                "use_stack": list(self.fail_stack.get(id(exc), []))})
            return self.error.type.__name__
        raise ValueError(k)

    def translate_call(self, msgid, mapping=None) -> None:
        """One call of the translation function (may be told to fail)."""
        pr = self.probe
        n = pr.count.get("T", 0)
        pr.count["T"] = n + 1
        pr.history.append("T")
        pr.tcalls.append(tcall_record(msgid, mapping, self.i18n_domain,
                                      self.i18n_context))
        do = pr.plan.get(("T", n)) or pr.plan.get(("T", "*"))
        if do is not None and do[0] == "raise":
            from .env import ZOO
            exc = ZOO[do[1]]()
            pr.raised.append(("T", n, exc))
            self.fail_stack[id(exc)] = list(self.use_stack)
            self.fail_info[id(exc)] = (None, self.fn_depth)
            raise exc

    def string_parts(self, parts: list):
        """string: expression / interpolation *value* (before insertion)."""
        vals = []
        for p in parts:
            if p[0] == "lit":
                vals.append(p[1])
            else:
                vals.append(("v", self.convert(self.ev(p[1]), None)))
        if len(vals) == 1 and not isinstance(vals[0], str):
            v = vals[0][1]
            return None if v is None else str(v)     # (a plain str again)
        return "".join(v if isinstance(v, str) else
                       ("" if v[1] is None else str(v[1])) for v in vals)

    def truth(self, v) -> bool:
        """The truth value of an expression's result - taking it can fail
        (after the expression itself, pipes and all, has returned)."""
        try:
            return bool(v)
        except BaseException as exc:
            if isinstance(v, BadBool):
                self.fail_stack[id(exc)] = list(self.use_stack)
                self.fail_info[id(exc)] = (v.site, self.fn_depth)
                self.fail_oid[id(exc)] = self.last_oid.get(v.site)
            raise

    # -- value -> text -----------------------------------------------------------------
    def convert(self, v, escape):
        """The documented conversion of an expression result for insertion:
        None inserts nothing; strings are escaped (unless structure); numbers
        are str()ed; objects with __html__ are inserted raw."""
        if v is None:
            return None
        if isinstance(v, Html):
            return RawStr(v.s)
        if isinstance(v, BadHtml):
            try:
                return RawStr(v.__html__())     # raises
            except BaseException as exc:
                self.fail_stack[id(exc)] = list(self.use_stack)
                self.fail_info[id(exc)] = (v.site, self.fn_depth)
                self.fail_oid[id(exc)] = self.last_oid.get(v.site)
                raise
        if isinstance(v, RawStr):
            return v
        if isinstance(v, bool) or not isinstance(v, (str, int, float)):
            # neither text nor a number nor markup: the value is offered to
            # the translation function first (which returns it unchanged)
            self.translate_call(v)
            v = str(v)
        elif not isinstance(v, str):
            return str(v)
        if escape is None:
            return v
        return RawStr(escape(v))

    def emit_value(self, v, mode: str, escape=esc_text) -> None:
        s = self.convert(v, None if mode == "structure" else escape)
        if s is not None:
            self.out.append(str(s))

    def text_parts(self, parts: list, escape) -> str | None:
        """Interpolated text / attribute value: each ${} is converted and
        escaped on its own; a lone ${} that yields None yields None."""
        vals = []
        for p in parts:
            if p[0] == "lit":
                vals.append(p[1])
            elif p[0] == "count":
                # appends to the list the enclosing element defined and
                # shows its length; the list is new at every reach of the
                # define
                self.lists[p[1]] = self.lists.get(p[1], 0) + 1
                vals.append(str(self.lists[p[1]]))
            elif p[0] == "var":
                vals.append(self.mlocals.get(p[1]) or
                            self.mglobals.get(p[1]) or "unset")
            elif p[0] == "errvar":
                vals.append("noerr")    # (text is never part of a fallback)
            elif p[0] == "expr":
                vals.append(("v", self.convert(self.ev(p[1]), escape)))
            else:
                v = self.ev(p[1])
                vals.append(("v", RawStr(str(v))))
        if len(vals) == 1 and not isinstance(vals[0], str):
            v = vals[0][1]
            return None if v is None else str(v)
        return "".join(v if isinstance(v, str) else
                       ("" if v[1] is None else str(v[1])) for v in vals)

    # -- nodes ---------------------------------------------------------------------------
    def node(self, n: dict, switch_state=None, via_use: bool = False,
             named_inner: bool = False) -> None:
        if n["t"] == "text":
            s = self.text_parts(n["parts"], esc_text)
            if s is not None:
                self.out.append(s)
            return
        if n["t"] == "code":
            self.ev(n["e"])         # a code block: evaluated, no output
            return
        if n.get("i18n_name") and self.tr_stack and not named_inner:
            # a named part of a message: whatever the element produces -
            # its fallback, if its own tal:on-error handled a failure - is
            # cut out of the message and handed over in the mapping
            frame = self.tr_stack[-1]
            start = len(self.out)
            self.node(n, switch_state, via_use, named_inner=True)
            frame["mapping"][n["i18n_name"]] = "".join(self.out[start:])
            del self.out[start:]
            self.out.append("${%s}" % n["i18n_name"])
            frame["placeholder"] = True
            return
        if n.get("define_macro") and not via_use:
            # rendered in place: an invocation of its own (no slot is
            # filled), and its tal:on-error is part of the macro
            self.frames.append({})
            self.fn_depth += 1
            try:
                self.node(n, switch_state, via_use=True,
                          named_inner=named_inner)
            finally:
                self.fn_depth -= 1
                self.frames.pop()
            return
        if n["on_error"] is None:
            self.element(n, switch_state, via_use)
            self._named_done(n)
            return
        mark = len(self.out)
        self.guard_value.pop(n.get("eid"), None)
        try:
            self.element(n, switch_state, via_use)
            self._named_done(n)
        except Exception as exc:        # noqa: BLE001 - that is the rule
            del self.out[mark:]
            self.handled += 1
            self._keep.append(exc)
            self.error = ErrorInfoModel(exc)
            if self.handler is not None:
                self.handler(exc)
            mode, fe = n["on_error"]
            # (an element whose own tag is never rendered - tal: namespace,
            # omit-tag, or a use-macro element, which is replaced by the
            # macro - has no tag in its fallback either)
            tagged = (not n["talns"]) and n["omit"] is None and \
                not n.get("use_macro")
            if (not n["talns"]) and n["omit"] not in (None, "") and \
                    self.guard_value.get(n["eid"]) is False:
                # the guard had been evaluated and the tags were showing
                self.guard_relevant = True
                if self.guard_tags:
                    tagged = True
            if tagged:
                self.out.append("<" + n["tag"])
                for name, parts in n["static"]:
                    if any(a[0] == name for a in n["attributes"]):
                        continue
                    if any(p[0] != "lit" for p in parts):
                        continue
                    self.out.append(' %s="%s"' % (name, parts[0][1]))
                self.out.append(">")
            # (the element's own i18n:domain / i18n:context hold for its
            # fallback, those of elements inside do not)
            saved_i18n = (self.i18n_domain, self.i18n_context)
            if n.get("i18n_domain"):
                self.i18n_domain = n["i18n_domain"]
            if n.get("i18n_context"):
                self.i18n_context = n["i18n_context"]
            try:
                fv = self.ev(fe)
                if n.get("translate"):
                    # i18n:translate="" on the element: the fallback value
                    # is passed through the translation function too
                    self.translate_call(fv)
            finally:
                self.i18n_domain, self.i18n_context = saved_i18n
            self.emit_value(fv, mode or "text")
            if tagged:
                self.out.append("</" + n["tag"] + ">")

    def _named_done(self, n: dict) -> None:
        pass        # (the named part is taken care of in node())

    def element(self, n: dict, switch_state, via_use: bool = False) -> None:
        if n.get("define_macro") and not via_use:
            # rendered in place: its own invocation, no slot is filled
            self.frames.append({})
            self.fn_depth += 1
            try:
                self.element(n, switch_state, via_use=True)
            finally:
                self.fn_depth -= 1
                self.frames.pop()
            return
        slot = n.get("define_slot")
        if slot and self.frames and slot in self.frames[-1]:
            # the caller's fill-slot element replaces this element,
            # statements and all (only on-error stays around it); it runs
            # in a function of its own
            self.fn_depth += 1
            saved = (self.i18n_domain, self.i18n_context)
            self.i18n_domain, self.i18n_context = \
                self.frames[-1].get("#i18n", saved)
            try:
                # (through node(): a tal:on-error on the fill-slot element
                # goes with its content to the place of the slot)
                self.node(self.frames[-1][slot])
            finally:
                self.fn_depth -= 1
                self.i18n_domain, self.i18n_context = saved
            return
        bound: list = []
        lists: list = []
        try:
            for scope, name, e in n["define"]:
                if e["k"] == "marker":
                    if scope == "global":
                        self.mglobals[name] = e["s"]
                    else:
                        bound.append((name, self.mlocals.get(name)))
                        self.mlocals[name] = e["s"]
                    continue
                if e["k"] == "lit" and name.startswith("L"):
                    # a fresh list at this reach; the name is bound for
                    # this element only (a nested invocation of the same
                    # macro has a list of its own)
                    lists.append((name, self.lists.get(name)))
                    self.lists[name] = 0
                self.ev(e)
            self._element_rest(n, switch_state)
        except BaseException:
            if bound:
                self.scope_relevant = True
                if not self.leaky_scope:
                    self._restore(bound)
            raise
        else:
            self._restore(bound)
        finally:
            for name, old in reversed(lists):
                if old is None:
                    self.lists.pop(name, None)
                else:
                    self.lists[name] = old

    def _restore(self, bound: list) -> None:
        for name, old in reversed(bound):
            if old is None:
                self.mlocals.pop(name, None)
            else:
                self.mlocals[name] = old

    def _element_rest(self, n: dict, switch_state) -> None:
        saved = (self.i18n_domain, self.i18n_context)
        try:
            self._element_rest2(n, switch_state)
        finally:
            self.i18n_domain, self.i18n_context = saved

    def _element_rest2(self, n: dict, switch_state) -> None:
        if n["case"] is not None:
            # only ever generated directly under a switch element
            if switch_state["matched"]:
                return
            v = self.ev(n["case"])
            if not (v == switch_state["value"] or v is default_marker()):
                if not self.case_once:
                    # (what the code at hand does: the case expression is
                    # evaluated a second time for the default comparison)
                    self.ev(n["case"])
                return
            switch_state["matched"] = True
        if n["condition"] is not None:
            if not self.truth(self.ev(n["condition"])):
                return
        if n["repeat"] is not None:
            seq = self.ev(n["repeat"][1])
            try:
                items = list(seq) if seq is not None else []
            except BaseException as exc:
                if isinstance(seq, (BadIter, BadSeq)):
                    self.fail_stack[id(exc)] = list(self.use_stack)
                    self.fail_info[id(exc)] = (seq.site, self.fn_depth)
                    self.fail_oid[id(exc)] = self.last_oid.get(seq.site)
                raise
            for _ in items:
                self.body(n)
            return
        self.body(n)

    def body(self, n: dict) -> None:
        # i18n:domain / i18n:context hold for the element's own output and
        # everything inside (not for its define / condition / repeat)
        saved = (self.i18n_domain, self.i18n_context)
        if n.get("i18n_domain"):
            self.i18n_domain = n["i18n_domain"]
        if n.get("i18n_context"):
            self.i18n_context = n["i18n_context"]
        try:
            self._body(n)
        finally:
            self.i18n_domain, self.i18n_context = saved

    def _body(self, n: dict) -> None:
        if n.get("use_macro"):
            fills = {c["fill_slot"]: c for c in n["children"]
                     if c["t"] == "el" and c.get("fill_slot")}
            # (slot content is rendered with the domain / context in force
            # where the use-macro element stands, whatever the macro sets)
            fills["#i18n"] = (self.i18n_domain, self.i18n_context)
            self.use_stack.append(n["eid"])
            self.frames.append(fills)
            self.fn_depth += 1
            try:
                if n["use_macro"] not in self.macros:
                    # (only minimised cases get here: the generator never
                    # refers to a macro it has not defined)
                    raise KeyError("Macro does not exist: '%s'."
                                   % n["use_macro"])
                # (through node(): a tal:on-error on the define-macro
                # element belongs to the macro, wherever it is used)
                self.node(self.macros[n["use_macro"]], None, via_use=True)
            finally:
                self.fn_depth -= 1
                self.frames.pop()
                self.use_stack.pop()
            return
        if n["replace"] is not None:
            mode, e = n["replace"]
            v = self.ev(e)
            if v is not default_marker():
                self.emit_value(v, mode or "text")
                return
        state = None
        if n["switch"] is not None:
            state = {"value": self.ev(n["switch"]), "matched": False}
        show_tag = not n["talns"]
        if n["omit"] == "":
            show_tag = False
        elif n["omit"] is not None and show_tag:
            self.guard_value.pop(n["eid"], None)
            show_tag = not self.truth(self.ev(n["omit"]))
            self.guard_value[n["eid"]] = not show_tag
        if show_tag:
            self.out.append("<" + n["tag"])
            dyn = {a[0]: a[1] for a in n["attributes"]}
            done = set()
            for name, parts in n["static"]:
                static_text = "".join(p[1] for p in parts) \
                    if all(p[0] == "lit" for p in parts) else None
                if name in dyn:
                    done.add(name)
                    v = self.ev(dyn[name])
                    if static_text is None and v is default_marker():
                        self.raw_attr_relevant = True
                        if self.raw_default_attr:
                            from .gen import Ser
                            ser = Ser()
                            ser.parts(parts)
                            raw = "".join(ser.buf)
                            self.out.append(' %s="%s"' % (name, raw))
                        else:
                            s_ = self.text_parts(parts, esc_attr)
                            if s_ is not None:
                                self.out.append(' %s="%s"' % (name, s_))
                        continue
                    self.attr(name, v, static_text)
                elif static_text is not None:
                    self.out.append(' %s="%s"' % (name, static_text))
                else:
                    s = self.text_parts(parts, esc_attr)
                    if s is not None:
                        self.out.append(' %s="%s"' % (name, s))
            for name, e in n["attributes"]:
                if name not in done:
                    self.attr(name, self.ev(e), None)
            if n.get("selfclose"):
                self.out.append(" />")
                return
            self.out.append(">")
        if n["content"] is not None:
            mode, e = n["content"]
            v = self.ev(e)
            if v is default_marker():
                self.children(n, state)
            else:
                self.emit_value(v, mode or "text")
        elif n.get("translate"):
            # The content is rendered into a message of its own (named
            # children are cut out and put back by the translation); with
            # the identity translation the message is emitted as it is.
            saved = self.out
            self.out = []
            self.tr_stack.append({"placeholder": False, "mapping": {}})
            try:
                self.children(n, state)
                msg = "".join(self.out)
            finally:
                self.out = saved
                frame = self.tr_stack.pop()
            # (a named child that completed leaves a ${name} placeholder in
            # the message id even when it rendered nothing)
            if msg.strip() or frame["placeholder"]:
                self.translate_call(msg, frame["mapping"])
                # identity translation: the placeholders get their values
                for name, val in frame["mapping"].items():
                    msg = msg.replace("${%s}" % name, val)
                self.out.append(msg)
        else:
            self.children(n, state)
        if show_tag:
            self.out.append("</" + n["tag"] + ">")

    def attr(self, name: str, v, static_text) -> None:
        if v is default_marker():
            if static_text is not None:
                self.out.append(' %s="%s"' % (name, static_text))
            return
        s = self.convert(v, esc_attr)
        if s is not None:
            self.out.append(' %s="%s"' % (name, s))

    def children(self, n: dict, state) -> None:
        for c in n["children"]:
            self.node(c, state)

    # -- entry ---------------------------------------------------------------------------
    def run(self) -> dict:
        res = {"out": None, "raise": None}
        try:
            self.node(self.tree)
            res["out"] = "".join(self.out)
        except BaseException as e:      # noqa: BLE001 - predicted outcome
            res["raise"] = [type(e).__name__, e]
        if res["raise"] is not None:
            res["use_stack"] = self.fail_stack.get(id(res["raise"][1]), [])
            res["fail_oid"] = self.fail_oid.get(id(res["raise"][1]))
        res["history"] = list(self.probe.history)
        res["tcalls"] = list(self.probe.tcalls)
        res["handler"] = list(self.handler.calls) if self.handler else []
        res["handled"] = self.handled
        res["guard_relevant"] = self.guard_relevant
        res["scope_relevant"] = self.scope_relevant
        res["raw_attr_relevant"] = self.raw_attr_relevant
        res["err_records"] = self.err_records
        return res


class RawStr(str):
    """Already converted/escaped text."""
