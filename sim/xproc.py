"""Child side of C14(b): render a sequence in *this* interpreter (whatever
PYTHONHASHSEED it was started with), after some allocator noise so that
id()s differ from the parent's, and print the outputs as JSON.

  python -m sim.xproc '<json case>'
"""
from __future__ import annotations

import json
import os
import shutil
import sys
import tempfile


def main() -> int:
    case = json.loads(sys.argv[1])
    from .core import REPO_SRC
    sys.path.insert(0, REPO_SRC)
    for k in list(os.environ):
        if k.upper().startswith("CHAMELEON_"):
            del os.environ[k]
    noise = [object() for _ in range(case.get("noise", 0) % 50000)]
    noise += [[i] for i in range(case.get("noise", 0) % 977)]
    from .checks import c14
    chk = c14.CHECK
    chk.plain_setup()
    d = tempfile.mkdtemp(prefix="verif-xproc-")
    try:
        out = chk.run_sequence(d, case["templates"], case["seq"],
                               reuse=case.get("reuse", True))
    finally:
        shutil.rmtree(d, ignore_errors=True)
    del noise
    print("XPROC " + json.dumps({"hashseed": os.environ.get("PYTHONHASHSEED"),
                                 "out": out}))
    return 0


if __name__ == "__main__":
    sys.exit(main())
