"""Child side of the process-stub validation of C15 (thorough tier).

  python -m sim.c15child '<json>'

mode "writer":   the same seams as the simulation, but a planned crash is a
                 real os._exit(137) of this real process.  Constructs and
                 renders the template with loader=ModuleLoader(<root>/cache).
mode "observer": a plain interpreter without any seam: constructs and
                 renders the template with loader=ModuleLoader(<dir>) and
                 prints the outcome.
"""
from __future__ import annotations

import json
import os
import sys


def main() -> int:
    arg = json.loads(sys.argv[1])
    from .core import REPO_SRC
    sys.path.insert(0, REPO_SRC)
    for k in list(os.environ):
        if k.upper().startswith("CHAMELEON_"):
            del os.environ[k]
    from .checks import c15
    chk = c15.CHECK
    if arg["mode"] == "writer":
        from .chamsim import import_chameleon
        from .core import EventLog
        from .fs import World
        import_chameleon()
        from chameleon.zpt import template as zt
        from chameleon.loader import ModuleLoader
        chk.zt = zt
        chk._ensure_alt()
        world = World(EventLog(), plan=arg["plan"], block=arg["block"],
                      root=arg["root"], real_crash=True)
        world.pyc_steps = True      # (same steps as the simulation)
        world.activate()
        proc = world.new_proc("A")
        with world.as_proc(proc):
            loader = ModuleLoader(os.path.join(arg["root"], "cache"))
            r = chk._attempt(arg["spec"], loader, world)
        print("CHILD " + json.dumps({"outcome": r[:3],
                                     "fs_calls": proc.fs_calls}))
        sys.stdout.flush()
        os._exit(0)
    else:
        # the documented way to switch the cache on: CHAMELEON_CACHE in the
        # environment before chameleon is imported; no loader= argument
        os.environ["CHAMELEON_CACHE"] = arg["dir"]
        from chameleon.zpt import template as zt
        from chameleon import config
        assert config.CACHE_DIRECTORY == os.path.abspath(arg["dir"])
        chk.zt = zt
        chk._ensure_alt()

        class W:            # just enough of a World for build()
            def __init__(self, root): self.root = root
            def path(self, *p): return os.path.join(self.root, *p)
        r = chk._attempt(arg["spec"], None, W(arg["root"]))
        print("CHILD " + json.dumps({"outcome": r[:3]}))
        return 0


if __name__ == "__main__":
    sys.exit(main())
